#!/bin/sh
# tools/run_all.sh [quick|thorough] [seed]  - run every check, print one summary line each
TIER=${1:-quick}; SEED=${2:-1}
cd "$(dirname "$0")/.." || exit 2
mkdir -p out
rc=0
for p in C01 C02 C03 C04 C05 C06 C07 C08 C09 C10 C11 C12 C13 C14 C15 C16 C17 C18; do
  VERIF_SEED=$SEED ./check $p --tier $TIER > out/run_$p.log 2>&1; r=$?
  tail -n 30 out/run_$p.log | grep -E "^$p tier|VIOLATION|HARNESS" 
  [ $r -ne 0 ] && rc=$r
done
exit $rc
