"""Validates MANIFEST.json and every evidence file against the schemas (run with python3-vt)."""
import glob, json, os, sys
import jsonschema
HERE = os.path.dirname(os.path.dirname(os.path.abspath(__file__)))
ok = True
man = json.load(open(os.path.join(HERE, 'MANIFEST.json')))
jsonschema.validate(man, json.load(open('/root/.vp/MANIFEST.schema.json')))
ev_schema = json.load(open('/root/.vp/EVIDENCE.schema.json'))
levels = {c['property_id']: c['level_claimed']['category'] for c in man['checks']}
for p in sorted(glob.glob(os.path.join(HERE, 'evidence', '*.json'))):
    ev = json.load(open(p))
    try:
        jsonschema.validate(ev, ev_schema)
        if levels.get(ev['property_id']) != ev['level']:
            raise Exception('level %s != manifest %s' % (ev['level'], levels.get(ev['property_id'])))
    except Exception as e:
        ok = False
        print('INVALID', p, str(e)[:300])
ids = [json.loads(l)['id'] for l in open(os.path.join(HERE, 'properties.jsonl')) if l.strip()]
claimed = set(levels) | {n['property_id'] for n in man.get('not_applicable', [])}
if set(ids) != claimed:
    ok = False
    print('properties not covered by checks/not_applicable:', sorted(set(ids) ^ claimed))
print('validate: %s (%d checks, %d evidence files)' % ('ok' if ok else 'FAILED', len(levels),
      len(glob.glob(os.path.join(HERE, 'evidence', '*.json')))))
sys.exit(0 if ok else 1)
