#!/venv/bin/python
"""Regenerates /verif/MANIFEST.json from the property modules that exist.

A property is claimed iff vp/props/cXX.py exists and declares MANIFEST = {...};
every other property of properties.jsonl is listed under not_applicable with
the reason given in PENDING below.
"""
import importlib
import json
import os
import sys

HERE = os.path.dirname(os.path.dirname(os.path.abspath(__file__)))
sys.path.insert(0, HERE)

PENDING = {}


def main():
    ids = [json.loads(l)['id'] for l in open(os.path.join(HERE, 'properties.jsonl')) if l.strip()]
    checks, na = [], []
    for pid in ids:
        path = os.path.join(HERE, 'vp', 'props', pid.lower() + '.py')
        if not os.path.exists(path):
            na.append({'property_id': pid, 'reason': PENDING.get(
                pid, 'check not built yet in this round (planned: DESIGN.md section 3); '
                     'no claim is made')})
            continue
        m = importlib.import_module('vp.props.' + pid.lower())
        man = m.MANIFEST
        checks.append({
            'property_id': pid,
            'quick_cmd': './check %s --tier quick' % pid,
            'thorough_cmd': './check %s --tier thorough' % pid,
            'evidence_file': 'evidence/%s.json' % pid,
            'replay_cmd_template': './check %s --replay {path}' % pid,
            'engine': 'pbt-runner',
            'level_claimed': {'category': m.LEVEL, 'text': man['text'],
                              'design_ref': man.get('design_ref', 'DESIGN.md section 3, ' + pid)},
            'level_note': man['note'],
            'technique': man['technique'],
        })
    manifest = {
        'version': 1,
        'setup_cmd': ("/venv/bin/python -c 'import hypothesis, pulp, numpy' || "
                      "/venv/bin/pip install --no-index --find-links /opt/veriftools/wheels "
                      "hypothesis"),
        'hooks': {
            'guard': 'MATCHINGPROBLEMS_VERIF',
            'enable': 'no source hooks exist: the harness patches PuLP\'s CBC adapter, the '
                      'datetime name in solver/solver.py and the global RNGs from its own '
                      'process; the guard name is reserved and unused',
            'baseline_off_cmd': 'cd /repo && env -u MATCHINGPROBLEMS_VERIF /venv/bin/python -m '
                                'pytest -q -p no:cacheprovider',
            'source_commits': [],
            'add_only': True,
        },
        'engines': [{
            'name': 'pbt-runner', 'path': 'vp/runner.py',
            'serves_properties': [c['property_id'] for c in checks],
            'kind_free_text': 'Hypothesis-driven generated-input search sharded over 16 '
                              'processes, exhaustive sweeps of small finite spaces, explicit '
                              'oracles (reference model, exact enumerating MILP back end, '
                              'fault injector), collect-then-shrink, JSON replay files',
        }],
        'checks': checks,
        'not_applicable': na,
        'notes': 'All checks run the code in /repo\'s working tree (VERIF_REPO overrides). '
                 'Exit 2 means the machinery failed (inconclusive), never a violation.',
    }
    with open(os.path.join(HERE, 'MANIFEST.json'), 'w') as f:
        json.dump(manifest, f, indent=1)
        f.write('\n')
    import subprocess
    subprocess.check_call(['python3-vt', os.path.join(HERE, 'tools', 'validate.py')])
    print('MANIFEST.json: %d checks, %d not_applicable' % (len(checks), len(na)))


if __name__ == '__main__':
    main()
