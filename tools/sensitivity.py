#!/venv/bin/python
"""Sensitivity: run quick checks against deliberately broken copies of the repository.

  tools/sensitivity.py [--props C01,C05] [--mutants name1,name2] [--tier quick] [--tests]

For every mutant in tools/mutants.py: copy /repo/matchingproblems to a scratch
directory outside /repo and /verif, apply the edit, (optionally) run the 35 pinned
tests against the copy, run the check of every property the mutant is tagged with
using VERIF_REPO=<copy>, expect exit status 1 with a VIOLATION line, delete the copy.
Results are written to SENSITIVITY.md / sensitivity.json.
"""
import argparse
import json
import os
import shutil
import subprocess
import sys
import tempfile
import time

HERE = os.path.dirname(os.path.dirname(os.path.abspath(__file__)))
sys.path.insert(0, os.path.join(HERE, 'tools'))
import mutants  # noqa


def make_copy(mut):
    d = tempfile.mkdtemp(prefix='mpverif-mut-')
    shutil.copytree('/repo/matchingproblems', os.path.join(d, 'matchingproblems'),
                    ignore=shutil.ignore_patterns('__pycache__'))
    shutil.copytree('/repo/test', os.path.join(d, 'test'),
                    ignore=shutil.ignore_patterns('__pycache__'))
    for edit in mut['edits']:
        path = os.path.join(d, 'matchingproblems', edit['file'])
        s = open(path).read()
        n = s.count(edit['old'])
        if n != edit.get('count', 1):
            shutil.rmtree(d)
            raise SystemExit('mutant %s: pattern occurs %d times in %s (expected %d)'
                             % (mut['name'], n, edit['file'], edit.get('count', 1)))
        s = s.replace(edit['old'], edit['new'])
        open(path, 'w').write(s)
    return d


def run_tests(d):
    r = subprocess.run(['/venv/bin/python', '-m', 'pytest', '-q', '-p', 'no:cacheprovider',
                        'test'], cwd=d, env=dict(os.environ, PYTHONPATH=d,
                                                  PYTHONDONTWRITEBYTECODE='1'),
                       stdout=subprocess.PIPE, stderr=subprocess.STDOUT, text=True)
    tail = r.stdout.strip().splitlines()[-1] if r.stdout.strip() else ''
    return r.returncode == 0, tail


def main():
    ap = argparse.ArgumentParser()
    ap.add_argument('--props')
    ap.add_argument('--mutants')
    ap.add_argument('--tier', default='quick')
    ap.add_argument('--tests', action='store_true', help='also run the pinned tests on each copy')
    ap.add_argument('--seed', default='1')
    a = ap.parse_args()
    props = set(a.props.split(',')) if a.props else None
    names = set(a.mutants.split(',')) if a.mutants else None
    rows = []
    for mut in mutants.MUTANTS:
        if names and mut['name'] not in names:
            continue
        targets = [p for p in mut['props'] if not props or p in props]
        if not targets:
            continue
        d = make_copy(mut)
        try:
            tests_ok, tail = run_tests(d) if a.tests else (None, '')
            for p in targets:
                t0 = time.time()
                r = subprocess.run([os.path.join(HERE, 'check'), p, '--tier', a.tier],
                                   env=dict(os.environ, VERIF_REPO=d, VERIF_SEED=a.seed,
                                            VERIF_EVIDENCE_DIR=os.path.join(HERE, 'out', 'sens-evidence'),
                                            VERIF_OUT_DIR=os.path.join(HERE, 'out', 'sens-violations')),
                                   stdout=subprocess.PIPE, stderr=subprocess.STDOUT, text=True)
                viol = [l for l in r.stdout.splitlines() if l.startswith('  violated:')]
                rows.append({'mutant': mut['name'], 'property': p, 'exit': r.returncode,
                             'caught': r.returncode == 1, 'wall_s': round(time.time() - t0, 1),
                             'tests_pass': tests_ok, 'first': viol[0][:200] if viol else
                             (r.stdout.strip().splitlines() or [''])[-1][:200],
                             'note': mut.get('note', '')})
                print('%-34s %s exit=%d %5.1fs %s%s' % (
                    mut['name'], p, r.returncode, time.time() - t0,
                    'CAUGHT' if r.returncode == 1 else 'MISSED',
                    '' if tests_ok in (None, True) else '  [pinned tests FAIL: %s]' % tail))
                sys.stdout.flush()
        finally:
            shutil.rmtree(d, ignore_errors=True)
    # restore evidence of the real tree is the caller's job (evidence files were rewritten)
    out = os.path.join(HERE, 'out')
    os.makedirs(out, exist_ok=True)
    json.dump(rows, open(os.path.join(out, 'sensitivity.json'), 'w'), indent=1)
    missed = [r for r in rows if not r['caught']]
    print('%d runs, %d caught, %d missed' % (len(rows), len(rows) - len(missed), len(missed)))
    return 1 if missed else 0


if __name__ == '__main__':
    sys.exit(main())
