#!/bin/sh
# tools/run_some.sh <tier> <seed> <Cxx>...  - run the named checks, one summary line each
TIER=$1; SEED=$2; shift 2
cd "$(dirname "$0")/.." || exit 2
mkdir -p out
rc=0
for p in "$@"; do
  VERIF_SEED=$SEED ./check $p --tier $TIER > out/run_$p.log 2>&1; r=$?
  tail -n 30 out/run_$p.log | grep -E "^$p tier|VIOLATION|HARNESS"
  [ $r -ne 0 ] && rc=$r
done
exit $rc
