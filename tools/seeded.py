#!/venv/bin/python
"""Confirms and files a seeded change produced by an independent sub-agent, and
runs the checks against it.

  tools/seeded.py add <Cxx> <k> <worktree-dir> "<needs>"   confirm patchK.diff/demoK.py, file under seeded/Cxx-k/
  tools/seeded.py run [Cxx-k ...] [--props C01,C02|all] [--tier quick]   run checks against filed seeds

Confirmation (in a scratch copy of /repo's HEAD, outside /repo and /verif):
  clean copy: demo exits 0; patched copy: the 35 pinned tests pass, demo exits 1.
"""
import argparse
import json
import os
import shutil
import subprocess
import sys
import tempfile
import time

HERE = os.path.dirname(os.path.dirname(os.path.abspath(__file__)))
SEEDED = os.path.join(HERE, 'seeded')
PY = '/venv/bin/python'


def scratch_copy():
    d = tempfile.mkdtemp(prefix='mpverif-seed-')
    subprocess.check_call('git -C /repo archive HEAD | tar -x -C %s' % d, shell=True)
    return d


def run(cmd, cwd, env=None, timeout=1800):
    e = dict(os.environ, PYTHONDONTWRITEBYTECODE='1')
    e.pop('VERIF_REPO', None)
    if env:
        e.update(env)
    import signal
    p = subprocess.Popen(cmd, cwd=cwd, env=e, stdout=subprocess.PIPE, stderr=subprocess.STDOUT,
                         text=True, start_new_session=True)
    try:
        out, _ = p.communicate(timeout=timeout)
        return p.returncode, out
    except subprocess.TimeoutExpired:
        os.killpg(p.pid, signal.SIGKILL)        # the check, its workers and any solver child
        out, _ = p.communicate()
        return 124, (out or '') + '\n[timed out after %ds]' % timeout


def apply_patch(d, patch):
    rc, out = run(['patch', '-p1', '--no-backup-if-mismatch', '-i', patch], d)
    if rc != 0:
        raise SystemExit('patch does not apply:\n' + out)


def confirm(patch, demo):
    d = scratch_copy()
    try:
        shutil.copy(demo, os.path.join(d, 'demo.py'))
        rc0, out0 = run([PY, 'demo.py'], d, {'PYTHONPATH': d})
        apply_patch(d, patch)
        rct, outt = run([PY, '-m', 'pytest', '-q', '-p', 'no:cacheprovider', 'test'], d,
                        {'PYTHONPATH': d})
        rc1, out1 = run([PY, 'demo.py'], d, {'PYTHONPATH': d})
        return {'demo_exit_unpatched': rc0, 'demo_exit_patched': rc1,
                'tests_pass_patched': rct == 0,
                'tests_tail': (outt.strip().splitlines() or [''])[-1],
                'demo_output_patched': out1[-1200:]}
    finally:
        shutil.rmtree(d, ignore_errors=True)


def cmd_add(a):
    src = a.worktree
    patch = os.path.join(src, 'patch%s.diff' % a.k)
    demo = os.path.join(src, 'demo%s.py' % a.k)
    res = confirm(patch, demo)
    ok = res['demo_exit_unpatched'] == 0 and res['demo_exit_patched'] == 1 and \
        res['tests_pass_patched']
    print(json.dumps(res, indent=1)[:1500])
    if not ok:
        print('NOT CONFIRMED - not filed')
        return 1
    dst = os.path.join(SEEDED, '%s-%s' % (a.prop, a.dest or a.k))
    os.makedirs(dst, exist_ok=True)
    shutil.copy(patch, os.path.join(dst, 'patch.diff'))
    shutil.copy(demo, os.path.join(dst, 'demo.py'))
    meta = {'property': a.prop, 'needs': a.needs,
            'origin': 'independent sub-agent given only the property text and a scratch worktree',
            'confirmed': {'how': 'tools/seeded.py add: scratch copy of /repo HEAD; demo exits 0 '
                                 'unpatched; with patch.diff applied the 35 pinned tests pass and '
                                 'demo exits 1',
                          'repo_head': subprocess.check_output(
                              ['git', '-C', '/repo', 'rev-parse', '--short', 'HEAD'],
                              text=True).strip(), **res},
            'checks': {}}
    json.dump(meta, open(os.path.join(dst, 'meta.json'), 'w'), indent=1)
    print('filed', dst)
    return 0


def cmd_run(a):
    names = a.seeds or sorted(os.listdir(SEEDED))
    rows = []
    for name in names:
        dst = os.path.join(SEEDED, name)
        mp = os.path.join(dst, 'meta.json')
        if not os.path.exists(mp):
            continue
        meta = json.load(open(mp))
        if a.props == 'all':
            props = ['C%02d' % i for i in range(1, 19)]
        elif a.props:
            props = a.props.split(',')
        else:
            props = [meta['property']]
        d = scratch_copy()
        try:
            apply_patch(d, os.path.join(dst, 'patch.diff'))
            for p in props:
                t0 = time.time()
                rc, out = run([os.path.join(HERE, 'check'), p, '--tier', a.tier], HERE,
                              {'VERIF_REPO': d, 'VERIF_SEED': a.seed,
                               'VERIF_EVIDENCE_DIR': os.path.join(HERE, 'out', 'seed-evidence'),
                               'VERIF_OUT_DIR': os.path.join(HERE, 'out', 'seed-violations', name)})
                viol = [l.strip() for l in out.splitlines() if l.startswith('  violated:')]
                by_seed = dict((meta['checks'].get('%s/%s' % (p, a.tier)) or {}).get('by_seed')
                               or {})
                by_seed[str(a.seed)] = (rc == 1)
                meta['checks']['%s/%s' % (p, a.tier)] = {
                    'by_seed': by_seed,
                    'exit': rc, 'caught': rc == 1, 'wall_s': round(time.time() - t0, 1),
                    'first_violation': viol[0][:300] if viol else None,
                    'cmd': 'VERIF_REPO=<copy of /repo HEAD + patch.diff> ./check %s --tier %s '
                           '(VERIF_SEED=%s)' % (p, a.tier, a.seed)}
                rows.append((name, p, rc))
                print('%-10s %s exit=%d %5.1fs %s' % (name, p, rc, time.time() - t0,
                                                      viol[0][:150] if viol else ''))
                sys.stdout.flush()
        finally:
            shutil.rmtree(d, ignore_errors=True)
        if not a.no_record:
            json.dump(meta, open(mp, 'w'), indent=1)
    missed = [r for r in rows if r[1] == json.load(open(os.path.join(SEEDED, r[0], 'meta.json')))[
        'property'] and r[2] != 1]
    print('%d runs; target-property misses: %r' % (len(rows), [r[0] for r in missed]))
    return 0


def main():
    ap = argparse.ArgumentParser()
    sub = ap.add_subparsers(dest='cmd')
    p = sub.add_parser('add')
    p.add_argument('prop')
    p.add_argument('k')
    p.add_argument('worktree')
    p.add_argument('needs')
    p.add_argument('--dest', help='suffix of the seeded/ directory (default: k)')
    p = sub.add_parser('run')
    p.add_argument('seeds', nargs='*')
    p.add_argument('--props')
    p.add_argument('--tier', default='quick')
    p.add_argument('--seed', default='1')
    p.add_argument('--no-record', action='store_true', help='do not update meta.json')
    a = ap.parse_args()
    return cmd_add(a) if a.cmd == 'add' else cmd_run(a)


if __name__ == '__main__':
    sys.exit(main())
