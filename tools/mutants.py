"""Deliberate breakages of the repository used to test the checks (DESIGN.md section 5).
Each edit is an exact string replacement in a file under matchingproblems/."""

LP = 'solver/lp_solver.py'
MODEL = 'solver/model.py'
FIO = 'solver/fileIO.py'
BF = 'solver/brute_force_solver.py'
OPT = 'solver/options_parser.py'
SOLVER = 'solver/solver.py'
GSH = 'generator/generator_shared.py'
GHR = 'generator/generator_ha_sm_hr.py'
GSPA = 'generator/generator_spa.py'
GOPT = 'generator/instance_options_parser.py'


def m(name, props, file, old, new, note='', count=1):
    return {'name': name, 'props': props, 'note': note,
            'edits': [{'file': file, 'old': old, 'new': new, 'count': count}]}


MUTANTS = [
    # ---- C17
    m('skew_div_n', ['C17'], GSH, '(skew - 1)/(number_agents - 1)', '(skew - 1)/(number_agents)'),
    m('skew_no_minus1', ['C17'], GSH, 'float(x * (skew - 1)/', 'float(x * (skew)/'),
    m('skew_intdiv', ['C17'], GSH, '(skew - 1)/(number_agents - 1)', '(skew - 1)//(number_agents - 1)'),
    m('skew_no_norm', ['C17'], GSH, 'return distribution / np.sum(distribution)',
      'return np.array(distribution)'),
    # ---- C01
    m('drop_lec_uq', ['C01'], LP, '''                    <= self.model.lec_upper_quotas[lec_index]), 
                "lec_uq_{}".format(lec_index))''', '''                    <= self.model.num_students), 
                "lec_uq_{}".format(lec_index))'''),
    m('drop_st_limit', ['C01'], LP, 'lpSum([pair.lp_var for pair in pairs_row]) <= 1, ',
      'lpSum([pair.lp_var for pair in pairs_row]) <= 2, '),
    m('lq_as_uq_closure', ['C01'], LP, '''                self.prob += (
                    pc_lq_exp >= lq, ''', '''                self.prob += (
                    pc_lq_exp >= 0, '''),
    m('closure_uq_sign', ['C01'], LP, 'pc_uq_exp += self.model.project_closures[proj_index] * uq',
      'pc_uq_exp -= self.model.project_closures[proj_index] * uq'),
    m('proj_lq_dropped_when_uq1', ['C01'], LP,
      'self.prob += (proj_vars >= lq, "proj_lq_{}".format(proj_index))',
      'self.prob += (proj_vars >= (lq if uq != lq else 0), "proj_lq_{}".format(proj_index))'),
    m('matching_string_index', ['C01', 'C11'], MODEL,
      '''        matching = ['0'] * self.num_students
        for pair in pair_assignments:
            matching[pair.student_index] = str(pair.projectID)
        return ' '.join(matching)''',
      '''        matching = ['0'] * self.num_students
        for pair in pair_assignments:
            matching[pair.student_index] = str(pair.project_index)
        return ' '.join(matching)'''),
]
