"""Deliberate breakages of the repository used to test the checks (DESIGN.md section 5).
Each edit is an exact string replacement in a file under matchingproblems/."""

LP = 'solver/lp_solver.py'
MODEL = 'solver/model.py'
FIO = 'solver/fileIO.py'
BF = 'solver/brute_force_solver.py'
OPT = 'solver/options_parser.py'
SOLVER = 'solver/solver.py'
GSH = 'generator/generator_shared.py'
GHR = 'generator/generator_ha_sm_hr.py'
GSPA = 'generator/generator_spa.py'
GOPT = 'generator/instance_options_parser.py'


def m(name, props, file, old, new, note='', count=1):
    return {'name': name, 'props': props, 'note': note,
            'edits': [{'file': file, 'old': old, 'new': new, 'count': count}]}


MUTANTS = [
    # ---- C17
    m('skew_div_n', ['C17'], GSH, '(skew - 1)/(number_agents - 1)', '(skew - 1)/(number_agents)'),
    m('skew_no_minus1', ['C17'], GSH, 'float(x * (skew - 1)/', 'float(x * (skew)/'),
    m('skew_intdiv', ['C17'], GSH, '(skew - 1)/(number_agents - 1)', '(skew - 1)//(number_agents - 1)'),
    m('skew_no_norm', ['C17'], GSH, 'return distribution / np.sum(distribution)',
      'return np.array(distribution)'),
    # ---- C01
    m('drop_lec_uq', ['C01'], LP, '''                    <= self.model.lec_upper_quotas[lec_index]), 
                "lec_uq_{}".format(lec_index))''', '''                    <= self.model.num_students), 
                "lec_uq_{}".format(lec_index))'''),
    m('drop_st_limit', ['C01'], LP, 'lpSum([pair.lp_var for pair in pairs_row]) <= 1, ',
      'lpSum([pair.lp_var for pair in pairs_row]) <= 2, '),
    m('lq_as_uq_closure', ['C01'], LP, '''                self.prob += (
                    pc_lq_exp >= lq, ''', '''                self.prob += (
                    pc_lq_exp >= 0, '''),
    m('closure_uq_sign', ['C01'], LP, 'pc_uq_exp += self.model.project_closures[proj_index] * uq',
      'pc_uq_exp -= self.model.project_closures[proj_index] * uq'),
    m('proj_lq_dropped_when_uq1', ['C01'], LP,
      'self.prob += (proj_vars >= lq, "proj_lq_{}".format(proj_index))',
      'self.prob += (proj_vars >= (lq if uq != lq else 0), "proj_lq_{}".format(proj_index))'),
    m('matching_string_index', ['C01', 'C11'], MODEL,
      '''        matching = ['0'] * self.num_students
        for pair in pair_assignments:
            matching[pair.student_index] = str(pair.projectID)
        return ' '.join(matching)''',
      '''        matching = ['0'] * self.num_students
        for pair in pair_assignments:
            matching[pair.student_index] = str(pair.project_index)
        return ' '.join(matching)'''),
]

MUTANTS += [
    # ---- C02
    m('maxsize_bound_small', ['C02'], LP, '''                "obj_maxsize", 
                lowBound = 0, 
                upBound = self.model.num_students, ''', '''                "obj_maxsize", 
                lowBound = 0, 
                upBound = self.model.num_projects, '''),
    m('abs_diff_bound_target', ['C02'], MODEL, '''                    "abs_lec_diff_{}".format(lec_index), 
                    lowBound = 0, 
                    upBound = lec_upper_quota, ''', '''                    "abs_lec_diff_{}".format(lec_index), 
                    lowBound = 0, 
                    upBound = self.lec_targets[lec_index], '''),
    m('lmb_bound_small', ['C02'], LP, 'upBound = self.model.get_max_lec_upper_quota(),',
      'upBound = max(self.model.lec_targets),'),
    m('status_from_first_solve_only', ['C02', 'C14'], LP,
      '        return LpStatus[self.prob.status] ',
      '        return LpStatus[self.prob.status] if len(self.optimisation_options) < 3 else "Optimal"'),
    m('gen_rank_var_bound', ['C02'], LP, '''                    "obj_generous_rank_" + str(r), 
                    lowBound = 0, 
                    upBound = self.model.num_students, ''', '''                    "obj_generous_rank_" + str(r), 
                    lowBound = 0, 
                    upBound = len(self.model.rank_lists[r - 1]) - 1, '''),
    # ---- C03
    m('maxsize_minimises', ['C03'], LP,
      '''        self.prob += (lpSum(all_vars) == obj)
        self.perform_optimisation(obj, Optimisation_type.MAXIMISE)
        

    def optimisation_minsize''', '''        self.prob += (lpSum(all_vars) == obj)
        self.perform_optimisation(obj, Optimisation_type.MINIMISE)
        

    def optimisation_minsize'''),
    m('generous_stops_early', ['C03'], LP,
      'for r in range(len(self.model.rank_lists), max(0, up_to_postition_inclusive - 1), -1):',
      'for r in range(len(self.model.rank_lists), max(1, up_to_postition_inclusive), -1):'),
    m('greedy_cutoff_off_by_one', ['C03'], LP,
      'for r in range(1, min(up_to_postition_inclusive + 1, len(self.model.rank_lists) + 1)):',
      'for r in range(1, min(up_to_postition_inclusive, len(self.model.rank_lists)) + (0 if len(additional_arguments) else 1)):'),
    m('rank_lists_index', ['C03'], LP, 'for pair in self.model.rank_lists[r - 1]:',
      'for pair in self.model.rank_lists[min(r, len(self.model.rank_lists) - 1)]:'),
    m('mincost_lecturer_uses_student_rank', ['C03'], LP,
      'sum_costs_exp += pair.lp_var * pair.rank_lecturer * lecturer_multiplier',
      'sum_costs_exp += pair.lp_var * pair.rank_student * lecturer_multiplier'),
    m('minsqcost_not_squared_lecturer', ['C03'], LP,
      'sum_costs_exp += pair.lp_var * pair.rank_lecturer**2 * lecturer_multiplier',
      'sum_costs_exp += pair.lp_var * pair.rank_lecturer * lecturer_multiplier'),
    m('abs_diff_one_sided', ['C03'], LP, '''            self.prob += (self.model.abs_lec_diff[lec_index] >= 
                self.model.lec_underload[lec_index])''', '''            pass'''),
    m('lmb_uses_first_lecturer_only', ['C03'], LP,
      '''        for lec_index in range(self.model.num_lecturers):
            self.prob += (obj >= self.model.abs_lec_diff[lec_index])''',
      '''        for lec_index in range(max(1, self.model.num_lecturers - 1)):
            self.prob += (obj >= self.model.abs_lec_diff[lec_index])'''),
    m('mincostlsb_default_mult_zero', ['C03'], LP,
      'lecturer_multiplier = 1 if len(cost_multipliers) < 2 else cost_multipliers[1]',
      'lecturer_multiplier = 0 if len(cost_multipliers) < 2 else cost_multipliers[1]'),
    m('mincost_default_lecturer_mult_one', ['C03'], LP,
      '''        lecturer_multiplier = 0 if len(cost_multipliers) < 2 else cost_multipliers[1]
        self.info_string += '- optimisation: minimising sum of ranks\\n\'''',
      '''        lecturer_multiplier = 1 if len(cost_multipliers) < 2 else cost_multipliers[1]
        self.info_string += '- optimisation: minimising sum of ranks\\n\''''),
    # ---- C04
    m('freeze_min_dropped', ['C04'], LP,
      '            self.prob += objective_function <= objective_function.varValue',
      '            pass'),
    m('freeze_max_wrong_direction', ['C04'], LP,
      '            self.prob += objective_function >= objective_function.varValue',
      '            self.prob += objective_function <= objective_function.varValue'),
    m('order_by_enum_not_position', ['C04', 'C16'], OPT,
      '''        ordered_opts = temp
        return ordered_opts, count''',
      '''        ordered_opts = sorted(temp, key=lambda x: x[0].value) if len(temp) > 3 else temp
        return ordered_opts, count'''),
    m('freeze_slack_on_minimise', ['C04'], LP,
      '            self.prob += objective_function <= objective_function.varValue',
      '            self.prob += objective_function <= objective_function.varValue + 1'),
    # ---- C05
    m('alpha_strict_rank', ['C05'], LP, '''                    if (lec_pair.rank_lecturer <= aim_rank and 
                        not lec_pair.studentID == pair.studentID):''',
      '''                    if (lec_pair.rank_lecturer < aim_rank and 
                        not lec_pair.studentID == pair.studentID):'''),
    m('alpha_includes_own_student', ['C05'], LP, '''                    if (lec_pair.rank_lecturer <= aim_rank and 
                        not lec_pair.studentID == pair.studentID):''',
      '''                    if (lec_pair.rank_lecturer <= aim_rank):'''),
    m('alpha_uses_project_uq', ['C05'], LP,
      'neg_l_uq = -1 * self.model.lec_upper_quotas[pair.lecturer_index]',
      'neg_l_uq = -1 * self.model.proj_upper_quotas[pair.project_index]'),
    m('beta_ignores_project', ['C05'], LP,
      'if lec_pair.projectID == pair.projectID:', 'if True:'),
    m('wants_to_move_strictly_better_only', ['C05'], LP,
      'while current_rank <= aim_rank and index < st_pref_length:',
      'while current_rank < aim_rank and index < st_pref_length:'),
    m('gamma_without_beta', ['C05'], LP, '                gamma_exp -= pair.beta_var\n', ''),
    # ---- C11
    m('cost_lecturer_uses_student_rank', ['C11'], MODEL,
      '                cost_lec += pair.rank_lecturer', '                cost_lec += pair.rank_student'),
    m('profile_index_off', ['C11'], MODEL,
      '            rank_allocations[pair.rank_student - 1] += 1',
      '            rank_allocations[min(pair.rank_student, max_rank - 1)] += 1'),
    m('abs_diff_no_negative_branch', ['C11'], MODEL, '''            if lpos > lneg:
                lec_abs_diffs[lec_index] = lpos
            else:
                lec_abs_diffs[lec_index] = lneg''', '''            lec_abs_diffs[lec_index] = max(lpos, 0)'''),
    m('project_listing_lecturer_by_index', ['C11'], MODEL,
      "str(self.proj_lecturers[j]) + '): ')", "str(min(j + 1, self.num_lecturers)) + '): ')"),
    m('lecturer_listing_target_swapped', ['C11'], MODEL,
      '''                str(self.lec_upper_quotas[k]) + ' (' + 
                str(self.lec_targets[k]) + ')\\n')''',
      '''                str(self.lec_targets[k]) + ' (' + 
                str(self.lec_upper_quotas[k]) + ')\\n')'''),
    m('degree_min_instead_of_max', ['C11'], MODEL,
      '            if pair.rank_student > max_matched_rank:',
      '            if pair.rank_student > max_matched_rank and pair.rank_student < 3:'),
    m('size_counts_pairs_of_project', ['C11'], MODEL,
      "        return len(matching) - matching.count('0')",
      "        return len(set(matching) - {'0'})"),
]

MUTANTS += [
    # ---- C06
    m('checker_3c_nonstrict', ['C06'], MODEL,
      'pair.rank_lecturer < worst_rank_projects[pair.project_index]):',
      'pair.rank_lecturer <= worst_rank_projects[pair.project_index]):'),
    m('checker_3b_drops_same_lecturer', ['C06'], MODEL,
      '((not assigned_pair_i == None and assigned_pair_i.lecturer_index == pair.lecturer_index) or',
      '((False) or'),
    m('checker_worst_is_best', ['C06'], MODEL,
      '''                elif pair.rank_lecturer > worst_ranks[pair.lecturer_index]:
                    worst_ranks[pair.lecturer_index] = pair.rank_lecturer''',
      '''                elif pair.rank_lecturer < worst_ranks[pair.lecturer_index]:
                    worst_ranks[pair.lecturer_index] = pair.rank_lecturer'''),
    m('checker_prefers_nonstrict', ['C06'], MODEL,
      'elif pair.rank_student < assigned_pair_i.rank_student:',
      'elif pair.rank_student <= assigned_pair_i.rank_student and pair is not assigned_pair_i:'),
    m('checker_lecturer_count_by_project', ['C06'], MODEL,
      'l_undersubscribed = l_num_assignments[pair.lecturer_index] < self.lec_upper_quotas[pair.lecturer_index]',
      'l_undersubscribed = p_num_assignments[pair.project_index] < self.lec_upper_quotas[pair.lecturer_index]'),
    m('checker_none_regression', ['C06'], MODEL,
      '''                    worst_rank_projects[pair.project_index] is not None and
''', ''),
    # ---- C13
    m('writer_close_on_wrong_element', ['C13'], GSH,
      "        elif in_tie and not ties_indicators[i]:", "        elif in_tie and not ties_indicators[i] and i > 1:"),
    m('writer_last_decision_opens', ['C13'], GSH,
      "if not in_tie and ties_indicators[i] and i < len(pref_list) - 1:",
      "if not in_tie and ties_indicators[i] and i < len(pref_list):"),
    m('reader_rank_bump_on_open', ['C13', 'C10'], FIO,
      '''            simp_ranks.append(rank)
            in_tie = True
''', '''            simp_ranks.append(rank)
            in_tie = True
            rank += (1 if len(simp_ranks) > 6 else 0)
'''),
    m('reader_no_bump_after_close_at_end', ['C13', 'C10'], FIO,
      '''            simp_ranks.append(rank)
            rank+=1
            in_tie = False''', '''            simp_ranks.append(rank)
            rank+=(0 if i == len(pref_list) - 2 else 1)
            in_tie = False'''),
    # ---- C10
    m('reader_target_uq_swapped', ['C10'], FIO,
      '''                model.lec_targets.append(int(line_split[2]))
                model.lec_upper_quotas.append(int(line_split[3]))''',
      '''                model.lec_targets.append(int(line_split[3]))
                model.lec_upper_quotas.append(int(line_split[2]))'''),
    m('reader_2agent_target_from_lq', ['C10'], FIO,
      '''                    model.lec_targets.append(int(line_split[2]))
                    model.lec_upper_quotas.append(int(line_split[2]))''',
      '''                    model.lec_targets.append(int(line_split[1]))
                    model.lec_upper_quotas.append(int(line_split[2]))'''),
    m('reader_section_boundary', ['C10'], FIO,
      'elif index < model.num_students + model.num_projects + 1:',
      'elif index < model.num_students + model.num_projects + (1 if model.num_projects < 6 else 0):'),
    m('reader_twopl_ignored_for_rank_ties', ['C10'], FIO,
      '        student_ranks[(lec_num, simp_lec_prefs[i])] = simp_lec_ranks[i]',
      '        student_ranks[(lec_num, simp_lec_prefs[i])] = i + 1'),
    m('pair_str_swaps_ranks', ['C10'], MODEL,
      "' rs' + str(self.rank_student) + ' l' + str(self.lecturerID) + ",
      "' rs' + str(self.rank_student if not hasattr(self, 'rank_lecturer') else self.rank_lecturer) + ' l' + str(self.lecturerID) + "),
]

MUTANTS += [
    # ---- C07
    m('bf_size_update_ge', ['C07'], BF, '                if size > self.optimal_size:',
      '                if size >= self.optimal_size and size > 0 or size > self.optimal_size:'),
    m('bf_moregen_from_front', ['C07'], BF,
      '        for i in range(len(profile1) - 1, -1, -1):\n            if profile1[i] < profile2[i]:',
      '        for i in range(len(profile1)):\n            if profile1[i] < profile2[i]:'),
    m('bf_ignores_lecturer_lq', ['C07'], BF, '''            if (self.model.lec_lower_quotas[lec_index] > 
                lec_num_allocations[lec_index] or''', '''            if (False or'''),
    m('bf_closure_rule', ['C07'], BF, '''                if ((self.model.proj_lower_quotas[proj_index] > 
                    proj_num_allocations[proj_index] and
                    not proj_num_allocations[proj_index] == 0) or''',
      '''                if ((self.model.proj_lower_quotas[proj_index] > 
                    proj_num_allocations[proj_index]) or'''),
    m('bf_greedy_only_maxsize', ['C07'], BF, '''                # save greedy
                if self.moregre(profile, self.optimal_greedyprofile):''',
      '''                # save greedy
                if size == self.optimal_size and self.moregre(profile, self.optimal_greedyprofile):'''),
    m('bf_sum_abs_init_small', ['C07'], BF, '''            self.model.get_max_lec_upper_quota() * num_lecturers)''',
      '''            self.model.get_max_lec_upper_quota() * min(num_lecturers, num_students))'''),
    m('bf_greedyprofile_regression', ['C07'], BF,
      'self.optimal_greedyprofile = [0] * self.model._get_max_rank()',
      'self.optimal_greedyprofile = [0] * num_students'),
    # ---- C08 / C12
    m('gen_length_exclusive', ['C08'], GSH,
      'minpreflistlength, maxpreflistlength + 1)', 'minpreflistlength, max(minpreflistlength + 1, maxpreflistlength))'),
    m('gen_quota_remainder_last', ['C08'], GSH, '        if i < remainder:', '        if i >= n - remainder:'),
    m('gen_with_replacement', ['C08'], GSH, 'replace=False, ', 'replace=(length_plist > 6), '),
    m('gen_hosp_numbering', ['C08'], GHR, '            hospital_num = x + 1', '            hospital_num = x + 1 if n2 < 7 else x'),
    m('gen_ties_wrong_side', ['C08'], GHR, 'pref_lists_res, args.n2, args.ties2)', 'pref_lists_res, args.n2, args.ties1)'),
    m('gen_spa_lecturer_lines_missing_uq', ['C08', 'C09'], GSPA,
      '''str(lec_lower_quotas[z]) + ": " + str(lec_targets[z]) + ": " + 
                str(lec_upper_quotas[z]) + ": " + prefList''',
      '''str(lec_lower_quotas[z]) + ": " + str(lec_upper_quotas[z]) + ": " + 
                str(lec_targets[z]) + ": " + prefList'''),
    m('gen_stale_list_regression', ['C08'], GHR, "            string_pref_list = []\n", ""),
    m('gen_info_block_swapped', ['C08'], GSPA,
      "'sum_agent3_targets: ' + str(args.lecturertargets)", "'sum_agent3_targets: ' + str(args.lecturerupperquotas)"),
    m('gen_spa_dedup_dropped', ['C12'], GSPA, '''            ranked_lecs = [False] * n3
            for proj in pref_lists_students[st_index]:
                lec = project_lecturers[proj - 1]
                ranked_lecs[lec - 1] = True
            student_lec_list = []
            for lec_index, lec_present in enumerate(ranked_lecs):
                if lec_present:
                    student_lec_list.append(lec_index + 1)''',
      '''            student_lec_list = []
            for proj in pref_lists_students[st_index]:
                student_lec_list.append(project_lecturers[proj - 1])'''),
    m('gen_second_side_by_position', ['C12'], GSH,
      '            prefs_lists_agent2[agent1_num - 1].append(i + 1)',
      '            prefs_lists_agent2[agent1_num - 1].append(i + 1 if i < 9 else i)'),
    m('gen_second_side_drops_last', ['C12', 'C09'], GSH,
      '''    for prefs_list_agent2 in prefs_lists_agent2:
        random.shuffle(prefs_list_agent2)''',
      '''    for prefs_list_agent2 in prefs_lists_agent2:
        random.shuffle(prefs_list_agent2)
        if len(prefs_list_agent2) > 4:
            prefs_list_agent2.pop()'''),
    # ---- C14
    m('gen_loop_regression', ['C14'], LP, '''            self.perform_optimisation(obj, Optimisation_type.MINIMISE)
            # Stop at the first rank that is not solved to optimality.
            if not LpStatus[self.prob.status] == self.model.OPTIMAL_PULP_STATUS:
                return None''', '''            self.perform_optimisation(obj, Optimisation_type.MINIMISE)'''),
    m('run_opts_no_early_exit', ['C14', 'C16'], LP, '''            if not LpStatus[self.prob.status] == self.model.OPTIMAL_PULP_STATUS:
                return None

    ''', '''            if False:
                return None

    '''),
    m('timeout_skipped_when_optimal', ['C14'], MODEL,
      'if self.pulp_status == self.NOTSOLVED_PULP_STATUS or total_s > self.time_limit: ',
      'if self.pulp_status == self.NOTSOLVED_PULP_STATUS or (total_s > self.time_limit and not self.pulp_status == self.OPTIMAL_PULP_STATUS): '),
    m('notsolved_not_timeout', ['C14'], MODEL,
      'if self.pulp_status == self.NOTSOLVED_PULP_STATUS or total_s > self.time_limit: ',
      'if total_s > self.time_limit: '),
    m('status_only_infeasible_blocks', ['C14'], MODEL,
      '        if not self.pulp_status == self.OPTIMAL_PULP_STATUS: \n            return results',
      "        if self.pulp_status == 'Infeasible': \n            return results"),
    # ---- C15
    m('opt_required_row_missing', ['C15'], GOPT, '''                (args.upperquotas, 'upperquotas'),
                (args.lecturerupperquotas, 'lecturerupperquotas'),''',
      '''                (args.lecturerupperquotas, 'lecturerupperquotas'),'''),
    m('opt_banned_row_missing', ['C15'], GOPT, '''                (args.twopl, 'twopl'),
                (args.n3, 'n3'),
                (args.ties2, 'ties2'),''', '''                (args.twopl, 'twopl'),
                (args.n3, 'n3'),'''),
    m('opt_bound_pmax_removed', ['C15'], GOPT, 'if args.maxpreflistlength > args.n2:', 'if args.maxpreflistlength > args.n2 + 1:'),
    m('opt_t2_bound_inverted', ['C15'], GOPT, 'if args.ties2 < 0.0 or args.ties2 > 1.0:', 'if args.ties2 < 0.0 or args.ties2 > 1.5:'),
    m('opt_llq_lt_removed', ['C15'], GOPT, 'args.lecturerlowerquotas > args.lecturertargets):', 'args.lecturerlowerquotas > args.lecturertargets + 1):'),
    m('gen_makedirs_before_parse', ['C15'], 'generator/generator.py',
      '''        self.options_parser = Instance_options_parser()
''', '''        import os
        if '-o' in args and not os.path.exists(args[args.index('-o') + 1]):
            os.makedirs(args[args.index('-o') + 1])
        self.options_parser = Instance_options_parser()
'''),
    m('opt_sm_regression', ['C15', 'C08'], GOPT, "            args.upperquotas = args.n1\n", ""),
    # ---- C16
    m('pos_range_off_by_one', ['C16'], OPT, 'if ordering < 1 or ordering > len(opts):', 'if ordering < 1 or ordering > len(opts) + 1:'),
    m('pos_zero_allowed', ['C16'], OPT, 'if ordering < 1 or ordering > len(opts):', 'if ordering < 0 or ordering > len(opts):'),
    m('dup_detection_removed', ['C16'], OPT, '        if not len(ordered_opts) == count:', '        if False:'),
    m('extras_sliced_wrong', ['C16'], OPT, 'ordered_opts[arguments[0] - 1] = (opt, arguments[1:])', 'ordered_opts[arguments[0] - 1] = (opt, arguments[2:] if len(arguments) > 2 else arguments[1:])'),
    m('stab_check_dropped', ['C16'], OPT, '''        if (extra_constraints[Extra_constraints.STAB] and 
            not instance_options[Instance_options.TWOPL]):''', '''        if False:'''),
    m('refusal_after_reading', ['C16'], SOLVER, '''        self.options_parser.parse(args)
        self.model = import_model(''', '''        try:
            self.options_parser.parse(args)
        except SystemExit:
            open(args[args.index('-f') + 1]).close()
            raise
        self.model = import_model('''),
    # ---- C18
    m('info_string_accumulates', ['C18'], MODEL, "        results += self.info_string + '\\n'",
      "        self.info_string += ''\n        results += self.info_string + '\\n'\n        self.info_string += ' '"),
    m('timestamps_at_call_time', ['C18'], MODEL, '        time_total = self.time_after_solve - self.time_start',
      '        import datetime as _dt\n        time_total = _dt.datetime.now() - self.time_start'),
    m('solver_object_reused', ['C18'], SOLVER, '''            self.solver = LP_Solver(
                self.model,''', '''            self.solver = getattr(self, 'solver', None) or LP_Solver(
                self.model,'''),
    m('debug_mutates_values', ['C18'], MODEL, '''                    if (pair.lp_var.varValue > 0.9):
                        lp_vars_string += '1 \'''', '''                    if (pair.lp_var.varValue > 0.9):
                        pair.lp_var.varValue = 0
                        lp_vars_string += '1 \''''),
    m('second_solve_keeps_status', ['C14'], SOLVER, '            self.model.pulp_status = pulp_status',
      "            self.model.pulp_status = pulp_status if not self.model.pulp_status else self.model.pulp_status"),
    # ---- C09
    m('reader_lecturer_from_index', ['C09', 'C10'], FIO, 'project_lecturers.append(int(line_split[3]))',
      'project_lecturers.append(int(line_split[3]) if model.num_projects < 4 else min(len(project_lecturers) + 1, model.num_lecturers))'),
]

MUTANTS += [
    m('pipeline_skew_clamped', ['C17'], GSH, '    distribution = create_linear_distribution(n2, skew)',
      '    distribution = create_linear_distribution(n2, skew if skew >= 1 else 1.0)'),
    m('pipeline_uniform_when_many', ['C17'], GSH, '            p=distribution)',
      '            p=distribution if n2 < 9 else None)'),
]
