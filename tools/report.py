#!/venv/bin/python
"""Writes SEEDED.md (from seeded/*/meta.json) and SENSITIVITY.md (from out/sensitivity*.json)."""
import glob, json, os
HERE = os.path.dirname(os.path.dirname(os.path.abspath(__file__)))
rows = []
for mp in sorted(glob.glob(os.path.join(HERE, 'seeded', '*', 'meta.json'))):
    m = json.load(open(mp))
    name = os.path.basename(os.path.dirname(mp))
    target = '%s/quick' % m['property']
    ck = m['checks'].get(target, {})
    others = sorted(k.split('/')[0] for k, v in m['checks'].items()
                    if v.get('caught') and k != target)
    bs = ck.get('by_seed') or {}
    seeds = ' (seeds ' + ','.join(k if v else k + ':missed' for k, v in sorted(bs.items())) + ')' \
        if bs else ''
    rows.append((name, m['property'], m['needs'], ck.get('caught'), ck.get('first_violation') or '',
                 others, m.get('history', ''), seeds))
with open(os.path.join(HERE, 'SEEDED.md'), 'w') as f:
    f.write('# Seeded changes (independent sub-agents) and the checks that catch them\n\n'
            'Each change was written by a fresh sub-agent that saw only the property text and a '
            'scratch worktree of /repo. `tools/seeded.py add` confirmed it (pinned tests pass with '
            'the patch, demo exits 0 without and 1 with it); `tools/seeded.py run` ran the quick '
            'check of the target property against /repo HEAD + patch. Details per change: '
            'seeded/<id>/meta.json.\n\n'
            '| id | needs, in order to manifest | caught by target check (quick) | first violation reported | also caught by | history |\n|---|---|---|---|---|---|\n')
    for name, prop, needs, caught, first, others, hist, seeds in rows:
        f.write('| %s | %s | %s | %s | %s | %s |\n' % (
            name, needs.replace('|', '/'),
            ('yes' if caught else ('NO' if caught is False else '-')) + seeds,
            first.replace('|', '/')[:140], ' '.join(others), hist))
print('SEEDED.md: %d changes, %d caught' % (len(rows), sum(1 for r in rows if r[3])))
sj = os.path.join(HERE, 'out', 'sensitivity_full.json')
if os.path.exists(sj):
    data = json.load(open(sj))
    with open(os.path.join(HERE, 'SENSITIVITY.md'), 'w') as f:
        f.write('# Sensitivity: hand-written mutants (tools/mutants.py) vs quick checks\n\n'
                'Produced by `tools/sensitivity.py --tests`; a mutant is an exact string '
                'replacement applied to a scratch copy of /repo/matchingproblems. "tests" = the 35 '
                'pinned tests still pass on the mutant (mutants that fail them are kept because the '
                'checks must catch them too, but they are the less interesting ones).\n\n'
                '| mutant | property | caught | wall s | pinned tests pass | first violation |\n|---|---|---|---|---|---|\n')
        for r in data:
            f.write('| %s | %s | %s | %s | %s | %s |\n' % (
                r['mutant'], r['property'], 'yes' if r['caught'] else 'NO', r['wall_s'],
                {True: 'yes', False: 'no', None: '-'}[r.get('tests_pass')],
                r['first'].replace('|', '/')[:120]))
    print('SENSITIVITY.md: %d runs, %d caught' % (len(data), sum(1 for r in data if r['caught'])))

# ---- COSTS.md from the evidence files
ev = []
for p in sorted(glob.glob(os.path.join(HERE, 'evidence', '*.json'))):
    e = json.load(open(p))
    ev.append(e)
with open(os.path.join(HERE, 'COSTS.md'), 'w') as f:
    f.write('# Measured cost and coverage of the last run of every check in /verif\n\n'
            '| property | tier | seed | evaluations | distinct non-trivial | wall s | violations |\n|---|---|---|---|---|---|---|\n')
    for e in ev:
        f.write('| %s | %s | %s | %d | %d | %s | %s |\n' % (
            e['property_id'], e['tier'], e['seed'], e['coverage']['evaluations'],
            e['coverage']['distinct_nontrivial'], e['wall_s'], e.get('violations')))
    tp = os.path.join(HERE, 'THOROUGH_RUNS.md')
    if os.path.exists(tp):
        f.write('\nThorough-tier runs: see THOROUGH_RUNS.md\n')
print('COSTS.md written')
