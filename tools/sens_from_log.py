#!/venv/bin/python
"""Builds out/sensitivity_full.json from the log of a (possibly interrupted) tools/sensitivity.py
run: rows of this run replace the stored rows of the same (mutant, property); rows of mutants
the run did not reach are kept from the earlier full run and marked as such."""
import json, os, re, sys
HERE = os.path.dirname(os.path.dirname(os.path.abspath(__file__)))
log = sys.argv[1]
full = os.path.join(HERE, 'out', 'sensitivity_full.json')
old = json.load(open(full)) if os.path.exists(full) else []
byk = {(r['mutant'], r['property']): dict(r, note=(r.get('note', '') + ' [result of an earlier full run]').strip())
       for r in old}
pat = re.compile(r'^(\S+)\s+(C\d\d) exit=(\d+)\s+([\d.]+)s (CAUGHT|MISSED)')
n = 0
for line in open(log):
    m = pat.match(line)
    if m:
        name, prop, ex, wall, verdict = m.groups()
        prev = byk.get((name, prop), {})
        byk[(name, prop)] = {'mutant': name, 'property': prop, 'exit': int(ex), 'caught': verdict == 'CAUGHT',
                             'wall_s': float(wall), 'tests_pass': prev.get('tests_pass'),
                             'first': prev.get('first', ''), 'note': re.sub(r' ?\[result of an earlier full run\]', '', prev.get('note', ''))}
        n += 1
rows = sorted(byk.values(), key=lambda r: (r['property'], r['mutant']))
json.dump(rows, open(full, 'w'), indent=1)
print('%d rows from this log, %d rows in total, %d caught' % (n, len(rows), sum(1 for r in rows if r['caught'])))
