"""Shared plumbing: where the code under test lives, violations, signatures.

Nothing in here imports the repository at module import time except through
`repo_import()`, so that VERIF_REPO is honoured by every worker process.
"""
import hashlib
import json
import os
import sys
import traceback

VERIF_DIR = os.path.dirname(os.path.dirname(os.path.abspath(__file__)))
REPO = os.path.abspath(os.environ.get('VERIF_REPO', '/repo'))

# The code under test is imported from REPO (current working tree), never from
# a copy.  Python needs no build step; bytecode is not written into the tree.
sys.dont_write_bytecode = True
if REPO not in sys.path[:1]:
    sys.path.insert(0, REPO)
# reserved hook guard (no hooks were needed; see DESIGN.md section 2)
os.environ.setdefault('MATCHINGPROBLEMS_VERIF', '1')


class HarnessError(Exception):
    """The machinery (not the repository) misbehaved: exit 2, never a VIOLATION."""


class SolverMisbehaved(BaseException):
    """The real MILP solver (CBC) returned, with status Optimal, a point that violates the
    LpProblem it was given.  Every property speaks about solutions a solver is entitled to
    return; such a point is not one, so the case is outside their premise: it is counted
    (label skipped:solver_returned_infeasible_point) and neither a violation nor a harness
    error.  (BaseException so that it passes through the repository's and call_repo's
    `except Exception` untouched.)"""


class Violation(Exception):
    """The property does not hold for this case.

    facet: short stable name of the clause of the property that failed.
    detail: human readable explanation.
    exc: (type name, innermost matchingproblems frame) when an exception
         escaped the repository, else None.
    """

    def __init__(self, facet, detail, exc=None):
        Exception.__init__(self, '%s: %s' % (facet, detail))
        self.facet = facet
        self.detail = detail
        self.exc = exc

    def signature(self, prop_id):
        parts = [prop_id, self.facet]
        if self.exc:
            parts.extend(self.exc)
        return '|'.join(parts)


def _repo_frame(tb):
    """Innermost frame of the traceback that lies in the matchingproblems package."""
    inner = None
    for fs in traceback.extract_tb(tb):
        fn = fs.filename.replace('\\', '/')
        if '/matchingproblems/' in fn and '/verif/' not in fn:
            inner = '%s:%s' % (os.path.basename(fn), fs.name)
    return inner


def call_repo(facet, fn, *args, **kwargs):
    """Call into the repository; an exception whose traceback passes through
    matchingproblems becomes a Violation(facet='exception:'+facet).  SystemExit
    is returned to the caller as an exception object (argparse refusals are
    data for C15/C16).  Exceptions raised without any repository frame are
    harness errors and propagate unchanged."""
    try:
        return fn(*args, **kwargs)
    except Violation:
        raise
    except HarnessError:
        raise
    except SystemExit:
        raise
    except Exception as e:  # noqa
        frame = _repo_frame(e.__traceback__)
        if frame is None:
            raise
        raise Violation('exception:' + facet,
                        '%s: %s (in %s)' % (type(e).__name__, e, frame),
                        exc=(type(e).__name__, frame))


def case_hash(case):
    blob = json.dumps(case, sort_keys=True, default=str).encode()
    return int.from_bytes(hashlib.blake2b(blob, digest_size=8).digest(), 'big')


def sig_hash(sig):
    return hashlib.blake2b(sig.encode(), digest_size=5).hexdigest()


class Result(object):
    """What run_case returns for a passing case."""
    __slots__ = ('nontrivial', 'labels', 'counters', 'key')

    def __init__(self, nontrivial, labels=(), counters=None, key=None):
        self.nontrivial = bool(nontrivial)
        self.labels = tuple(labels)
        self.counters = counters or {}
        # key: what 'distinct' means for this case (default: the whole case)
        self.key = key
