"""Hypothesis strategies: instances (with a case mix), solver option sets,
render noise, adversarial choice lists.  Construction, never rejection.
(DESIGN.md section 2.2)"""
from hypothesis import strategies as st

from .common import HarnessError

SIZES = {
    'quick': dict(n1=4, n2=3, n3=3, lmax=3),
    'thorough': dict(n1=5, n2=4, n3=4, lmax=4),
    'tiny': dict(n1=3, n2=3, n3=2, lmax=2),
}

_R100 = list(range(100))


def pct(draw):
    """Uniform integer in 0..99 (st.integers is deliberately biased; sampled_from is not)."""
    return draw(st.sampled_from(_R100))


def uni(draw, lo, hi):
    """Uniform integer in lo..hi."""
    return draw(st.sampled_from(list(range(lo, hi + 1)))) if hi > lo else lo


CLASSES = ['generic', 'generic', 'shared_tight', 'heavy_ties', 'zero_capacity',
           'lower_quotas', 'more_lecturers', 'two_agent', 'two_agent', 'tied_lower_quotas',
           'lecturer_ties_only']


def _groups(draw, items, tie_pct):
    """Ordered items -> tie groups; each boundary tied with probability tie_pct/100."""
    groups = []
    for x in items:
        if groups and tie_pct and pct(draw) < tie_pct:
            groups[-1].append(x)
        else:
            groups.append([x])
    return groups


@st.composite
def instances(draw, sizes, na=None, two_sided=None, cls=None, min_len=1):
    """A well-formed instance dict (see refmodel).  `cls` forces a case-mix class."""
    if cls is None:
        cls = draw(st.sampled_from(CLASSES))
    if na is None:
        na = 2 if cls == 'two_agent' else (3 if cls in ('shared_tight', 'more_lecturers',
                                                         'lecturer_ties_only')
                                           else draw(st.sampled_from([3, 3, 2])))
    n1 = uni(draw, 1, sizes['n1'])
    n2 = uni(draw, min(max(min_len, sizes.get('n2min', 1)), sizes['n2']), sizes['n2'])
    if cls in ('shared_tight', 'lecturer_ties_only'):
        n2 = max(n2, 2)
        n1 = max(n1, 2)
    if na == 3:
        if cls in ('shared_tight', 'lecturer_ties_only'):
            n3 = uni(draw, 1, max(1, n2 - 1))
        elif cls == 'more_lecturers':
            n3 = uni(draw, min(n1 + 1, sizes['n3'] + 1), sizes['n3'] + 1)
        else:
            n3 = uni(draw, 1, sizes['n3'])
    else:
        n3 = n2
    if two_sided is None:
        two_sided = pct(draw) < 70
    extras = pct(draw) < 8
    heavy = cls in ('heavy_ties', 'tied_lower_quotas')
    t1 = draw(st.sampled_from([0, 0, 30, 60])) if not heavy else \
        draw(st.sampled_from([60, 85, 100]))
    t2 = draw(st.sampled_from([0, 0, 30, 60])) if not heavy else \
        draw(st.sampled_from([60, 85, 100]))
    if cls == 'lecturer_ties_only':
        # strict first-side lists, a lecturer indifferent between students of his different
        # projects: stable matchings of different sizes without any tie a project could see
        t1, t2 = 0, draw(st.sampled_from([60, 85, 100]))
    prefs = []
    for _ in range(n1):
        perm = draw(st.permutations(list(range(1, n2 + 1))))
        k = uni(draw, min(min_len, n2, sizes['lmax']), min(n2, sizes['lmax']))
        prefs.append(_groups(draw, list(perm[:k]), t1))
    if n1 >= 2 and pct(draw) < 5:
        # a student who finds no project acceptable (an empty first-side list): the reader
        # accepts the line, the student simply stays unassigned
        prefs[uni(draw, 0, n1 - 1)] = []
    zero = cls == 'zero_capacity'
    lowq = cls in ('lower_quotas', 'tied_lower_quotas')
    uq_choices = [0, 0, 1, 1, 2] if zero else [0, 1, 1, 1, 2, 2, 3]
    puq = [draw(st.sampled_from(uq_choices)) for _ in range(n2)]
    plq = []
    for j in range(n2):
        if puq[j] and pct(draw) < 10 * (6 if lowq else 1):
            plq.append(uni(draw, 1, puq[j]))
        else:
            plq.append(0)
    inst = {'na': na, 'n1': n1, 'n2': n2, 'n3': n3, 'prefs': prefs, 'plq': plq, 'puq': puq}
    if na == 3:
        plec = [uni(draw, 1, n3) for _ in range(n2)]
        if cls in ('shared_tight', 'lecturer_ties_only'):
            plec[0] = plec[1] = 1   # lecturer 1 certainly offers >= 2 projects
            puq[0] = max(puq[0], 1)
            puq[1] = max(puq[1], 1)
        luq, lt, llq = [], [], []
        for k in range(n3):
            cap = sum(puq[j] for j in range(n2) if plec[j] == k + 1)
            if cls in ('shared_tight', 'lecturer_ties_only') and k == 0:
                u = uni(draw, 1, max(1, cap - 1))
            elif zero:
                u = draw(st.sampled_from([0, 0, 1, 2, cap]))
            else:
                u = draw(st.sampled_from([0, 1, 2, 2, 3, 4, cap, cap + 1]))
            luq.append(u)
            t = uni(draw, 0, u)
            lt.append(t)
            if t and pct(draw) < 10 * (5 if lowq else 1):
                llq.append(uni(draw, 1, t))
            else:
                llq.append(0)
        inst.update(plec=plec, llq=llq, lt=lt, luq=luq)
    else:
        inst.update(plec=list(range(1, n2 + 1)), llq=list(plq), lt=list(puq), luq=list(puq))
    if cls == 'lecturer_ties_only' and pct(draw) < 70:
        # the situation in which such a tie matters: lecturer 1 (two projects) has one place,
        # every project has room, the other lecturers take what comes
        inst['puq'] = [max(1, u) for u in inst['puq']]
        inst['plq'] = [0] * n2
        inst['luq'][0] = 1
        inst['lt'][0] = min(inst['lt'][0], 1)
        inst['llq'][0] = 0
        for k in range(1, n3):
            inst['luq'][k] = max(inst['luq'][k], sum(inst['puq'][j] for j in range(n2)
                                                     if inst['plec'][j] == k + 1))
    if two_sided:
        lprefs = []
        for k in range(n3):
            sts = [i + 1 for i in range(n1)
                   if any(inst['plec'][p - 1] == k + 1 for g in prefs[i] for p in g)]
            perm = draw(st.permutations(sts)) if len(sts) > 1 else sts
            if cls == 'lecturer_ties_only':
                # tie two students only when they apply for DIFFERENT projects of this
                # lecturer: no project sees a tie among its own applicants
                mine = lambda i: set(p for g in prefs[i - 1] for p in g if plec_of(p) == k + 1)
                plec_of = lambda p: inst['plec'][p - 1]
                groups = []
                for x in perm:
                    if groups and pct(draw) < t2 and \
                            not any(mine(x) & mine(y) for y in groups[-1]):
                        groups[-1].append(x)
                    else:
                        groups.append([x])
                lprefs.append(groups)
                continue
            lprefs.append(_groups(draw, list(perm), t2))
        if extras:
            # a hand-written second-side list may also rank students who did not apply there:
            # ranks are positions in the list as written, the extra entries are never matched
            for k in range(n3):
                have = set(x for g in lprefs[k] for x in g)
                for s in range(1, n1 + 1):
                    if s not in have and pct(draw) < 50:
                        pos = uni(draw, 0, len(lprefs[k]))
                        if lprefs[k] and pos < len(lprefs[k]) and pct(draw) < 30:
                            lprefs[k][pos].append(s)
                        else:
                            lprefs[k].insert(pos, [s])
        inst['lprefs'] = lprefs
    else:
        inst['lprefs'] = None
    inst['cls'] = cls
    return inst


def max_rank(inst):
    return max(len(g) for g in inst['prefs'])


CRIT_FLAGS = {'maxsize': '-maxsize', 'minsize': '-minsize', 'gen': '-gen', 'gre': '-gre',
              'mincost': '-mincost', 'minsqcost': '-minsqcost', 'lmb': '-lmb', 'lsb': '-lsb',
              'mincostlsb': '-mincostlsb'}
CRIT_NAMES = list(CRIT_FLAGS)
# the README documents a short and a long spelling of every solver flag
LONG_FLAGS = {'-f': '-filename', '-na': '-numagents', '-twopl': '-twosidedpreferencelists',
              '-pc': '-projectclosures', '-stab': '-stability', '-maxsize': '-maximisesize',
              '-minsize': '-minimisesize', '-gen': '-generous', '-gre': '-greedy',
              '-mincost': '-minimisecost', '-minsqcost': '-minimisesquaredcost',
              '-lmb': '-loadmaxbalanced', '-lsb': '-loadsumbalanced',
              '-mincostlsb': '-minimisecostloadsumbalanced', '-bf': '-bruteforce'}


@st.composite
def criterion_args(draw, name, maxrank, mult_max=3):
    if name == 'gen':
        return draw(st.one_of(st.just([]), st.lists(st.integers(1, maxrank), min_size=1,
                                                     max_size=1)))
    if name == 'gre':
        return draw(st.one_of(st.just([]), st.lists(st.integers(1, maxrank + 2), min_size=1,
                                                     max_size=1), st.just([99])))
    if name in ('mincost', 'minsqcost', 'mincostlsb'):
        return draw(st.lists(st.sampled_from(list(range(mult_max + 1)) * 3 + [7, 50, 1000]),
                             min_size=0, max_size=2))
    return []


@st.composite
def criteria_lists(draw, maxrank, min_n=0, max_n=4, names=None):
    """Ordered-by-draw list of [name, position, extras] with distinct names and positions."""
    names = names or CRIT_NAMES
    n = uni(draw, min_n, min(max_n, len(names)))
    chosen = draw(st.permutations(names))[:n]
    positions = draw(st.permutations(list(range(1, 10))))[:n]
    out = []
    for name, pos in zip(chosen, positions):
        out.append([name, pos, draw(criterion_args(name, maxrank))])
    return out


@st.composite
def option_sets(draw, inst, min_crit=0, max_crit=4, stab=None, pc=None, twopl=None,
                names=None):
    two = inst.get('lprefs') is not None
    if twopl is None:
        twopl = two and pct(draw) < 85
    if stab is None:
        stab = twopl and pct(draw) < 40
    if pc is None:
        pc = pct(draw) < 30
    crit = draw(criteria_lists(max_rank(inst), min_crit, max_crit, names))
    # order of the flags on the command line: a drawn permutation
    flags = ['twopl'] * bool(twopl) + ['stab'] * bool(stab) + ['pc'] * bool(pc) + \
        ['f', 'na'] + ['crit%d' % i for i in range(len(crit))]
    order = list(draw(st.permutations(flags)))
    long_flags = draw(st.sampled_from([None, None, [1], [0, 1], [1, 0, 0], [1, 1, 0]]))
    # `-flag=value`, the other form argparse accepts for a flag with exactly one value
    eq = draw(st.sampled_from([None, None, None, [1], [0, 1], [1, 0, 0]]))
    return {'twopl': bool(twopl), 'stab': bool(stab), 'pc': bool(pc), 'crit': crit,
            'order': order, 'long_flags': long_flags, 'eq': eq}


def build_argv(opts, filename, na, bf=False):
    """Option set -> argv for Solver(args); flag order as drawn."""
    argv = []
    for f in ('twopl', 'stab', 'pc'):
        if bool(opts[f]) != (f in opts['order']):
            raise HarnessError('option set inconsistent: %s=%r but order=%r'
                               % (f, opts[f], opts['order']))
    if sum(1 for x in opts['order'] if x.startswith('crit')) != len(opts['crit']):
        raise HarnessError('option set inconsistent: criteria vs order')
    for fl in opts['order']:
        if fl == 'f':
            argv += ['-f', filename]
        elif fl == 'na':
            argv += ['-na', str(na)]
        elif fl in ('twopl', 'stab', 'pc'):
            argv.append('-' + fl)
        else:
            name, pos, extras = opts['crit'][int(fl[4:])]
            argv += [CRIT_FLAGS[name], str(pos)] + [str(x) for x in extras]
    if bf:
        argv.append('-bf')
    spelling = opts.get('long_flags')
    if spelling:
        # spelling: list of 0/1 cycled over the flags (1 = long documented name)
        k = 0
        for i, tok in enumerate(argv):
            if tok in LONG_FLAGS:
                if spelling[k % len(spelling)]:
                    argv[i] = LONG_FLAGS[tok]
                k += 1
    eq = opts.get('eq')
    if eq:
        flags = set(LONG_FLAGS) | set(LONG_FLAGS.values())
        out, k, i = [], 0, 0
        while i < len(argv):
            tok = argv[i]
            one_value = (tok in flags and i + 1 < len(argv) and argv[i + 1] not in flags
                         and (i + 2 == len(argv) or argv[i + 2] in flags))
            if one_value:
                if eq[k % len(eq)]:
                    out.append('%s=%s' % (tok, argv[i + 1]))
                else:
                    out += [tok, argv[i + 1]]
                k += 1
                i += 2
            else:
                out.append(tok)
                i += 1
        argv = out
    return argv


def ordered_criteria(opts):
    """Criteria in execution order (by position): list of (name, extras)."""
    return [(n, list(e)) for n, p, e in sorted(opts['crit'], key=lambda c: c[1])]


_CH = list(range(60))   # 60 = lcm(1..6): index = choice mod |O| is uniform for small |O|
choice_lists = st.lists(st.sampled_from(_CH), min_size=0, max_size=10)
salts = st.sampled_from(_CH)
choice_lists_nonempty = st.lists(st.sampled_from(_CH), min_size=1, max_size=8)


@st.composite
def noises(draw):
    exotic = pct(draw) < 15
    eol = draw(st.sampled_from(['\n', '\n', '\n', '\r\n']))
    if exotic:
        # every character str.split() treats as whitespace and file iteration does not treat as
        # a line end: "arbitrary inter-token whitespace"
        ws = st.sampled_from([' ', '\x0c', '\x0b', '\x1c', '\x1d', '\x1e', '\x1f', '\t', ' \x0c ',
                              '\x0b\x0b', '\t\x1f'])
        edge = st.sampled_from(['', '', ' ', '\x0c', '\x0b', '\x1c', '\x1d', '\x1e', '\x1f'])
    else:
        ws = st.sampled_from([' ', ' ', '  ', '\t', ' \t ', '    '])
        edge = st.sampled_from(['', '', ' ', '\t', '  '])
    return {'seps': draw(st.lists(ws, min_size=1, max_size=4)),
            'lead': draw(st.lists(edge, min_size=1, max_size=3)),
            'trail': draw(st.lists(edge, min_size=1, max_size=3)),
            'info': draw(st.booleans()), 'final_newline': draw(st.booleans()),
            'blank_tail': draw(st.sampled_from([0, 0, 1, 3])), 'eol': eol, 'exotic': exotic}


def instance_labels(inst, opts=None):
    """Labels describing which shapes a case exercises (evidence histogram)."""
    L = ['na=%d' % inst['na'], 'cls=' + inst.get('cls', '?'),
         'two_sided' if inst.get('lprefs') is not None else 'one_sided']
    if any(len(g) > 1 for pl in inst['prefs'] for g in pl):
        L.append('ties_side1')
    if any(len(pl) == 0 for pl in inst['prefs']):
        L.append('empty_first_side_list')
    if inst.get('lprefs') and any(len(g) > 1 for pl in inst['lprefs'] for g in pl):
        L.append('ties_side2')
    if inst.get('lprefs'):
        for k, pl in enumerate(inst['lprefs']):
            if any(not any(inst['plec'][p - 1] == k + 1 for g in inst['prefs'][x - 1] for p in g)
                   for grp in pl for x in grp if 1 <= x <= inst['n1']):
                L.append('second_side_ranks_non_applicant')
                break
    if inst['na'] == 3:
        cnt = {}
        for l in inst['plec']:
            cnt[l] = cnt.get(l, 0) + 1
        if any(c > 1 for c in cnt.values()):
            L.append('shared_lecturer')
        for k in range(inst['n3']):
            cap = sum(inst['puq'][j] for j in range(inst['n2']) if inst['plec'][j] == k + 1)
            if cnt.get(k + 1, 0) > 1 and inst['luq'][k] < cap:
                L.append('tight_lecturer')
                break
        if any(k + 1 not in cnt for k in range(inst['n3'])):
            L.append('lecturer_without_project')
    if 0 in inst['puq'] or 0 in inst['luq']:
        L.append('zero_capacity')
    if any(inst['plq']) or any(inst['llq']):
        L.append('lower_quota')
    if inst['n3'] > inst['n1']:
        L.append('more_lecturers_than_students')
    if opts is not None:
        for f in ('twopl', 'stab', 'pc'):
            if opts[f]:
                L.append('-' + f)
        L.append('ncrit=%d' % len(opts['crit']))
        for n, p, e in opts['crit']:
            L.append('crit=' + n)
    return L


# ------------------------------------------------------------------ sparse embedding
ID_POOL = [1, 2, 3, 9, 10, 11, 12, 13, 19, 20, 21, 22]
BIG_ID_POOL = [2, 256, 257, 258, 259, 260, 299, 300]


def embed(inst, smap, pmap, lmap=None):
    """Embed a small instance into one with large, sparse ids (two digits, colliding digit
    strings) without changing its matchings: the real agents keep their structure under new
    ids, every other id is an inert agent (inert students rank only an inert sink project with
    room for all of them).  Returns (big instance, lift) where lift maps a matching of the
    small instance to the corresponding matching of the big one."""
    na = inst['na']
    n1, n2, n3 = inst['n1'], inst['n2'], inst['n3']
    if na == 2:
        lmap = list(pmap)
    N1 = max(smap)
    inert_s = [s for s in range(1, N1 + 1) if s not in smap]
    N2 = max(pmap)
    free_p = [p for p in range(1, N2 + 1) if p not in pmap]
    if inert_s and not free_p:
        N2 += 1
        free_p = [N2]
    sink_p = free_p[0] if inert_s else None
    if na == 3:
        N3 = max(lmap)
        free_l = [l for l in range(1, N3 + 1) if l not in lmap]
        if (inert_s or len(free_p) > 0) and not free_l:
            N3 += 1
            free_l = [N3]
        sink_l = free_l[0] if free_l else None
    else:
        N3 = N2
        sink_l = sink_p
    prefs = [None] * N1
    for i in range(n1):
        prefs[smap[i] - 1] = [[pmap[p - 1] for p in g] for g in inst['prefs'][i]]
    for s in inert_s:
        prefs[s - 1] = [[sink_p]]
    plq, puq, plec = [0] * N2, [0] * N2, [sink_l if sink_l else 1] * N2
    for j in range(n2):
        plq[pmap[j] - 1] = inst['plq'][j]
        puq[pmap[j] - 1] = inst['puq'][j]
        plec[pmap[j] - 1] = lmap[inst['plec'][j] - 1]
    if sink_p:
        puq[sink_p - 1] = len(inert_s)
    big = {'na': na, 'n1': N1, 'n2': N2, 'n3': N3, 'prefs': prefs, 'plq': plq, 'puq': puq,
           'cls': 'embedded'}
    two = inst.get('lprefs') is not None
    if na == 3:
        llq, lt, luq = [0] * N3, [0] * N3, [0] * N3
        for k in range(n3):
            llq[lmap[k] - 1], lt[lmap[k] - 1], luq[lmap[k] - 1] = \
                inst['llq'][k], inst['lt'][k], inst['luq'][k]
        if sink_l:
            lt[sink_l - 1] = luq[sink_l - 1] = len(inert_s)
        big.update(plec=plec, llq=llq, lt=lt, luq=luq)
    else:
        big.update(plec=list(range(1, N2 + 1)), llq=list(plq), lt=list(puq), luq=list(puq))
    if two:
        lprefs = [[] for _ in range(N3)]
        for k in range(n3):
            lprefs[lmap[k] - 1] = [[smap[s - 1] for s in g] for g in inst['lprefs'][k]]
        if inert_s:
            lprefs[sink_l - 1] = [[s] for s in inert_s]
        big['lprefs'] = lprefs
    else:
        big['lprefs'] = None

    def lift(M):
        out = [0] * N1
        for i, p in enumerate(M):
            out[smap[i] - 1] = pmap[p - 1] if p else 0
        for s in inert_s:
            out[s - 1] = sink_p
        return tuple(out)
    return big, lift


@st.composite
def id_maps(draw, inst):
    """Drawn sparse id maps (students, projects, lecturers) for embed()."""
    pools = [ID_POOL, ID_POOL, ID_POOL]
    for side in range(3):
        # ids beyond CPython's small-int cache (identity vs equality on ints), per side
        # (projects more often: project numbers are compared in the most places)
        if pct(draw) < (40 if side == 1 else 22):
            pools[side] = BIG_ID_POOL
    smap = list(draw(st.permutations(pools[0])))[:inst['n1']]
    pmap = list(draw(st.permutations(pools[1])))[:inst['n2']]
    lmap = list(draw(st.permutations(pools[2])))[:inst['n3']] if inst['na'] == 3 else None
    if pct(draw) < 30 and inst['n1'] >= 2:
        # numbers whose decimal spellings concatenate identically: student x with partner yz,
        # student xy with partner z (x y z digits): "x"+"yz" == "xy"+"z"
        x, y, z = uni(draw, 1, 2), uni(draw, 1, 2), uni(draw, 1, 9)
        s2 = [x, 10 * x + y]
        o2 = [10 * y + z, z]
        if o2[0] != o2[1]:
            smap = (s2 + [v for v in smap if v not in s2])[:inst['n1']]
            other = lmap if (lmap is not None and inst['n3'] >= 2 and draw(st.booleans())) \
                else (pmap if inst['n2'] >= 2 else None)
            if other is not None:
                n = len(other)
                other[:] = (o2 + [v for v in other if v not in o2])[:n]
            smap = list(draw(st.permutations(smap)))
    return {'smap': smap, 'pmap': pmap, 'lmap': lmap}


@st.composite
def siblings(draw, inst):
    """Another instance over the same agents and first-side lists (so that the same matchings
    are expressible) with different capacities, targets and second-side orders.  Used as the
    instance of a second object in the same process: nothing may leak from it."""
    import copy
    s = copy.deepcopy(inst)
    n2, n3 = s['n2'], s['n3']
    s['puq'] = [max(s['plq'][j], s['puq'][j] + draw(st.sampled_from([-1, 0, 1, 2])))
                for j in range(n2)]
    if s['na'] == 3:
        s['luq'] = [max(s['llq'][k], s['luq'][k] + draw(st.sampled_from([-1, 0, 1, 3])))
                    for k in range(n3)]
        s['lt'] = [max(s['llq'][k], min(s['luq'][k], draw(st.sampled_from([0, 1, 2, 3]))))
                   for k in range(n3)]
    else:
        s['llq'], s['lt'], s['luq'] = list(s['plq']), list(s['puq']), list(s['puq'])
    if s.get('lprefs') is not None:
        s['lprefs'] = [list(reversed(g)) for g in s['lprefs']]
    s['cls'] = 'sibling'
    return s


@st.composite
def crowd_instances(draw, two_sided=True):
    """Hundreds of students competing for two or three hospitals / projects: counts and ranks
    beyond 127 and 255 (narrow integer types), three-digit statistics.  No enumeration is
    possible on these; only oracles that work on a single matching apply."""
    n1 = draw(st.sampled_from([129, 130, 200, 257, 260]))
    n2 = draw(st.sampled_from([2, 3]))
    na = draw(st.sampled_from([2, 2, 3]))
    first = draw(st.sampled_from([1, 1, 2]))
    prefs = []
    for i in range(n1):
        k = draw(st.sampled_from([0, 0, 0, 1, 2]))        # how many further entries
        rest = [p for p in range(1, n2 + 1) if p != first][:k]
        prefs.append([[first]] + [[p] for p in rest])
    cap1 = draw(st.sampled_from([1, 5, 127, 128, 130, n1]))
    puq = [n1] * n2
    puq[first - 1] = cap1
    inst = {'na': na, 'n1': n1, 'n2': n2, 'prefs': prefs, 'plq': [0] * n2, 'puq': puq,
            'cls': 'crowd'}
    if na == 3:
        n3 = draw(st.sampled_from([1, 2]))
        plec = [1 + (j % n3) for j in range(n2)]
        luq = [sum(puq[j] for j in range(n2) if plec[j] == k + 1) for k in range(n3)]
        inst.update(n3=n3, plec=plec, llq=[0] * n3, lt=[min(u, 100) for u in luq], luq=luq)
    else:
        inst.update(n3=n2, plec=list(range(1, n2 + 1)), llq=[0] * n2, lt=list(puq),
                    luq=list(puq))
    if two_sided:
        rev = draw(st.booleans())
        lprefs = []
        for k in range(inst['n3']):
            sts = [i + 1 for i in range(n1)
                   if any(inst['plec'][p - 1] == k + 1 for g in prefs[i] for p in g)]
            if rev:
                sts = list(reversed(sts))
            lprefs.append([[s] for s in sts])
        inst['lprefs'] = lprefs
    else:
        inst['lprefs'] = None
    return inst


@st.composite
def size_gadget_instances(draw):
    """Two-sided instances whose stable matchings have DIFFERENT sizes: a tight lecturer /
    hospital ranks its last admissible applicants in one tie, and some of them (not all) have
    an outside option they like less.  Who gets the last place decides whether everybody is
    matched.  The tied students apply for drawn projects of the tight lecturer (the same one
    or different ones), so the tie may or may not be visible among one project's applicants."""
    na = draw(st.sampled_from([3, 3, 2]))
    m = draw(st.sampled_from([1, 2, 2, 3])) if na == 3 else 1     # projects of the tight agent
    c = draw(st.sampled_from([1, 1, 2]))                          # its capacity
    ntied = draw(st.sampled_from([2, 2, 3]))
    n1 = (c - 1) + ntied
    n2 = m + 1
    out = n2                                                      # the outside project
    with_out = [pct(draw) < 50 for _ in range(ntied)]
    with_out[draw(st.sampled_from(range(ntied)))] = True
    k = draw(st.sampled_from(range(ntied)))
    if all(with_out):
        with_out[k] = False
    prefs = []
    for i in range(n1):
        p = draw(st.sampled_from(range(1, m + 1)))
        lst = [[p]]
        if i >= c - 1 and with_out[i - (c - 1)]:
            lst.append([out])
        elif i < c - 1 and pct(draw) < 30:
            lst.append([out])
        prefs.append(lst)
    order = list(draw(st.permutations(list(range(1, n1 + 1)))))
    # relabel students so that numbering carries no information
    relabel = {old + 1: new for old, new in enumerate(order)}
    prefs2 = [None] * n1
    for old in range(n1):
        prefs2[relabel[old + 1] - 1] = prefs[old]
    top = [[relabel[i + 1]] for i in range(c - 1)]
    tied = [relabel[i + 1] for i in range(c - 1, n1)]
    tight_list = top + [list(draw(st.permutations(tied)))]
    outs = [i + 1 for i in range(n1) if any(out in g for g in prefs2[i])]
    out_list = [[x] for x in draw(st.permutations(outs))] if outs else []
    puq = [draw(st.sampled_from([c, c, n1])) for _ in range(m)] + [n1]
    inst = {'na': na, 'n1': n1, 'n2': n2, 'prefs': prefs2, 'plq': [0] * n2, 'puq': puq,
            'cls': 'size_gadget'}
    if na == 3:
        inst.update(n3=2, plec=[1] * m + [2], llq=[0, 0], lt=[c, draw(st.sampled_from([0, n1]))],
                    luq=[c, n1], lprefs=[tight_list, out_list])
    else:
        inst['puq'] = [c, n1]
        inst.update(n3=2, plec=[1, 2], llq=[0, 0], lt=[c, n1], luq=[c, n1],
                    lprefs=[tight_list, out_list])
    return inst


def load_tradeoff(draw, inst):
    """In place: projects that are either closed or filled as a block (lower quota = upper
    quota, meant for -pc; blocks as large as the number of students compete with single
    places elsewhere) and lecturers whose targets lie anywhere up to a roomy upper quota: the
    least maximum and the least total load deviation tend to need different matchings."""
    n1, n2, n3 = inst['n1'], inst['n2'], inst['n3']
    inst['puq'] = [draw(st.sampled_from([1, 1, max(1, n1 - 1), n1, n1])) for _ in range(n2)]
    inst['plq'] = [u if pct(draw) < 70 else 0 for u in inst['puq']]
    inst['luq'] = [draw(st.sampled_from([n1, n1 + 1, n1 + 2])) for _ in range(n3)]
    inst['lt'] = [draw(st.sampled_from(list(range(0, u + 1)) + [2, 3])) for u in inst['luq']]
    inst['lt'] = [min(t, u) for t, u in zip(inst['lt'], inst['luq'])]
    inst['llq'] = [0] * n3
    inst['cls'] = 'load_tradeoff'
    return inst


@st.composite
def load_conflict_instances(draw):
    """SPA instances (meant for -pc) in which the least MAXIMUM and the least TOTAL lecturer
    load deviation are reached by different matchings: a project that is either closed or
    filled by a block of b students (lecturer 1, target b) competes for one of those students
    with a single place at lecturer 2, whose target t2 > b can never be met.  Filling the
    block gives deviations (0, t2); taking the single place gives (b, t2 - 1): smaller
    maximum, larger total.  Further students, projects and lecturers are drawn around it."""
    b = draw(st.sampled_from([2, 2, 3]))
    t2 = b + draw(st.sampled_from([1, 1, 2]))
    extra_s = draw(st.sampled_from([0, 0, 1]))
    extra_p = draw(st.sampled_from([0, 0, 1]))
    n1, n2, n3 = b + extra_s, 2 + extra_p, 2 + extra_p
    order = list(draw(st.permutations([1, 2])))
    block, single = order[0], order[1]              # project numbers of the two roles
    prefs = []
    for i in range(b):
        lst = [[block]]
        if i == 0:
            lst = [[block], [single]] if draw(st.booleans()) else [[single], [block]]
        prefs.append(lst)
    for _ in range(extra_s):
        prefs.append([[3]] if extra_p and draw(st.booleans()) else [[block]])
    puq, plq, plec = [0] * n2, [0] * n2, [0] * n2
    puq[block - 1], plq[block - 1], plec[block - 1] = b, b, 1
    puq[single - 1], plq[single - 1], plec[single - 1] = 1, draw(st.sampled_from([0, 1])), 2
    luq, lt, llq = [b + extra_s, t2 + 1], [b, t2], [0, 0]
    if extra_p:
        puq[2], plq[2], plec[2] = 1, 0, 3
        luq.append(1)
        lt.append(draw(st.sampled_from([0, 1])))
        llq.append(0)
    perm = list(draw(st.permutations(list(range(n1)))))
    prefs = [prefs[k] for k in perm]
    return {'na': 3, 'n1': n1, 'n2': n2, 'n3': n3, 'prefs': prefs, 'plq': plq, 'puq': puq,
            'plec': plec, 'llq': llq, 'lt': lt, 'luq': luq, 'lprefs': None,
            'cls': 'load_conflict'}


COST_LIKE = ('mincost', 'minsqcost', 'mincostlsb', 'minsize', 'gen')


def maxsize_first(draw, opts):
    """In place: when a minimising criterion is requested, put -maxsize at the lowest position
    (adding it if absent), so that the minimising criterion chooses among non-empty matchings
    and its arguments matter.  The flag order stays a drawn permutation."""
    crit = opts['crit']
    if not any(c[0] in COST_LIKE for c in crit):
        return opts
    lo = min(c[1] for c in crit)
    ms = [c for c in crit if c[0] == 'maxsize']
    if ms:
        holder = [c for c in crit if c[1] == lo][0]
        holder[1], ms[0][1] = ms[0][1], lo
        return opts
    used = set(c[1] for c in crit)
    free_below = [p for p in range(1, lo)]
    if free_below:
        pos = draw(st.sampled_from(free_below))
    else:
        free = [p for p in range(1, 10) if p not in used]
        if not free:
            return opts
        holder = [c for c in crit if c[1] == lo][0]
        holder[1] = free[0]
        pos = lo
    crit.append(['maxsize', pos, []])
    opts['order'].insert(uni(draw, 0, len(opts['order'])), 'crit%d' % (len(crit) - 1))
    return opts


@st.composite
def cost_focus_options(draw, inst, stab=None, pc=None):
    """-twopl, -maxsize first, then one cost criterion whose optional multipliers are drawn from
    the shapes that differ only in how an absent or zero multiplier is read: none, one, two;
    explicit 0 on either side; possibly another criterion behind it."""
    name = draw(st.sampled_from(['mincost', 'mincost', 'minsqcost', 'mincostlsb']))
    tail = draw(st.sampled_from([[], [], ['gre'], ['gen'], ['lsb']]))
    opts = draw(option_sets(inst, min_crit=2 + len(tail), max_crit=2 + len(tail),
                            names=['maxsize', name] + tail, twopl=True, stab=stab, pc=pc))
    for c in opts['crit']:
        if c[0] == name:
            c[2] = list(draw(st.sampled_from([[], [1], [2], [0], [0, 1], [0, 2], [1, 0], [1, 1],
                                              [1, 2], [2, 1], [3, 1], [0, 0], [0, 1], [0, 3],
                                              [2, 0], [0]])))
    # positions: maxsize lowest, the cost criterion next, the tail last
    pos = sorted(c[1] for c in opts['crit'])
    rank = {'maxsize': 0, name: 1}
    for c in opts['crit']:
        c[1] = pos[rank.get(c[0], 2)]
    return opts
