"""Generator-side plumbing: legal argument vectors, running Generator(args) as a
pure function of a drawn seed, reading its output with the independent reader."""
import contextlib
import io
import os
import random
import shutil

from hypothesis import strategies as st

from . import refmodel, solverio
from .common import Violation, call_repo
from .strategies import pct, uni

TYPES = ['ha', 'sm', 'hr', 'spa']
REQUIRED = {'ha': ['n1', 'n2', 'pmin', 'pmax', 'uq'],
            'sm': ['n1', 'pmin', 'pmax', 'twopl'],
            'hr': ['n1', 'n2', 'pmin', 'pmax', 'uq', 'twopl'],
            'spa': ['n1', 'n2', 'n3', 'pmin', 'pmax', 'uq', 'luq']}
BANNED = {'ha': ['twopl', 'n3', 't2', 'llq', 'luq', 'lt'],
          'sm': ['n2', 'n3', 'uq', 'lq', 'llq', 'luq', 'lt'],
          'hr': ['n3', 'llq', 'luq', 'lt'],
          'spa': []}
OPTIONAL = {'ha': ['lq', 't1', 'skew'],
            'sm': ['t1', 't2', 'skew'],
            'hr': ['lq', 't1', 't2', 'skew'],
            'spa': ['twopl', 'lq', 'llq', 'lt', 't1', 't2', 'skew']}
ORDER = ['numinst', 'o', 'mp', 'n1', 'n2', 'n3', 'pmin', 'pmax', 't1', 't2', 'skew', 'lq', 'uq',
         'llq', 'lt', 'luq', 'twopl']


@st.composite
def legal_vectors(draw, nmax=(12, 8, 6), types=None, numinst_max=3, two_sided=None):
    """A legal parameter dict for one problem type (values in dependency order)."""
    mp = draw(st.sampled_from(types or TYPES))
    N1, N2, N3 = nmax
    v = {'mp': mp, 'numinst': uni(draw, 1, numinst_max)}
    v['n1'] = uni(draw, 1, N1)
    if mp == 'sm':
        n2 = v['n1']
    else:
        n2 = v['n2'] = uni(draw, 1, N2)
    if mp == 'spa':
        v['n3'] = uni(draw, 1, N3)
    v['pmax'] = uni(draw, 1, n2)
    v['pmin'] = uni(draw, 1, v['pmax'])
    opt = set(k for k in OPTIONAL[mp] if pct(draw) < 60)
    if two_sided is not None and mp == 'spa':
        (opt.add if two_sided else opt.discard)('twopl')
    if mp != 'sm':
        v['uq'] = n2 + draw(st.sampled_from([0, 0, 1, 2, n2, 2 * n2 + 1]))
        if 'lq' in opt:
            v['lq'] = uni(draw, 0, v['uq'])
    if mp == 'spa':
        v['luq'] = draw(st.sampled_from([1, 2, v['n3'], v['n3'] + 1, 2 * v['n3'], v['n1'],
                                         v['n1'] + v['n3']]))
        if 'lt' in opt:
            v['lt'] = uni(draw, 0, v['luq'])
        if 'llq' in opt:
            v['llq'] = uni(draw, 0, v.get('lt', 0))
        if 'twopl' in opt:
            v['twopl'] = True
    if mp in ('sm', 'hr'):
        v['twopl'] = True
    ties = st.sampled_from([0.0, 0.0, 1.0, 0.5, 0.25, 0.8])
    if 't1' in opt:
        v['t1'] = draw(ties)
    if 't2' in opt and mp != 'ha':
        v['t2'] = draw(ties)
    if 'skew' in opt:
        v['skew'] = draw(st.sampled_from([1.0, 2.0, 5.0, 0.5, 10.0, 50.0, 1.5]))
    v['seed'] = uni(draw, 0, 9999)
    return v


GEN_LONG = {'numinst': '--numberinstances', 'o': '--outputdirectory', 'mp': '--matchingproblem',
            'twopl': '--preferencelists2', 'skew': '--linearskew', 'n1': '--numberofagents1',
            'n2': '--numberofagents2', 'n3': '--numberofagents3', 'pmin': '--minpreflistlength',
            'pmax': '--maxpreflistlength', 't1': '--ties1', 't2': '--ties2',
            'lq': '--lowerquotas', 'uq': '--upperquotas', 'llq': '--lecturerlowerquotas',
            'luq': '--lecturerupperquotas', 'lt': '--lecturertargets'}


def build_argv(v, outdir):
    """argv of a parameter vector.  The *syntax* is a function of v['seed'] (so that perturbed
    copies of a vector keep it): documented long spellings for a quarter of the cases; the
    `-opt=value` form argparse accepts for a third; the options in documented, reversed or
    rotated order."""
    seed = int(v.get('seed', 0))
    items = _build_items(v, outdir)
    order = (seed // 12) % 3
    if order == 1:
        items = items[::-1]
    elif order == 2 and items:
        k = seed % len(items)
        items = items[k:] + items[:k]
    if seed % 4 == 3:
        items = [[GEN_LONG[it[0][1:]]] + it[1:] for it in items]
    argv = []
    eq = (seed // 4) % 3 == 1
    for it in items:
        if eq and len(it) == 2:
            argv.append('%s=%s' % (it[0], it[1]))
        else:
            argv += it
    return argv


def _build_items(v, outdir):
    items = []
    for k in ORDER:
        if k == 'o':
            items.append(['-o', outdir])
            continue
        if k not in v:
            continue
        if k == 'twopl':
            if v[k]:
                items.append(['-twopl'])
        else:
            items.append(['-' + k, str(v[k])])
    return items


def _build_argv(v, outdir):
    return [t for it in _build_items(v, outdir) for t in it]


def fresh_outdir(tag='gen', nested=False, style=0):
    """A not yet existing output directory; nested=True: its parent does not exist either
    (the README layout `-o ./hr/instances`).  style: how the name is spelt - 1 upper-case
    letters, 2 a blank in the name, 3 a trailing slash, 4 a hidden directory (leading dot)."""
    name = {1: tag.capitalize() + '_A', 2: tag + ' dir', 4: '.' + tag}.get(style, tag)
    top = os.path.join(solverio.workdir(), name)
    if os.path.exists(top):
        shutil.rmtree(top)
    out = os.path.join(top, 'HR' if style == 1 else 'hr', 'instances') if nested else top
    return out + '/' if style == 3 else out


def outdir_top(outdir):
    """The top-level scratch directory of an outdir returned by fresh_outdir."""
    w = solverio.workdir()
    rel = os.path.relpath(outdir, w)
    return os.path.join(w, rel.split(os.sep)[0])


@st.composite
def prior_runs(draw, pct_=10):
    """With probability pct_: an earlier, unrelated Generator run in the same process
    (module-level or class-level state must not leak into the run under test)."""
    if pct(draw) >= pct_:
        return None
    return draw(legal_vectors(nmax=(6, 6, 4), numinst_max=2))


def run_prior(prior):
    if prior:
        try:
            run_generator(build_argv(prior, fresh_outdir('prior')), prior['seed'])
        except Exception:
            pass        # the prior run's own behaviour is not what the case checks


def relative_outdir(outdir):
    """(cwd, relative spelling) for an outdir below the scratch directory: the run is made
    from the scratch directory with `-o ./<rest>`."""
    w = solverio.workdir()
    return w, './' + os.path.relpath(outdir, w) + ('/' if outdir.endswith('/') else '')


def run_generator(argv, seed, cwd=None):
    """Runs Generator(argv) with both global RNGs seeded (from directory cwd, if given).
    Returns ('ok', None, stderr) or ('exit', code, stderr); other exceptions become
    Violations."""
    import numpy as np
    from matchingproblems import generator as gen_pkg
    st_py, st_np = random.getstate(), np.random.get_state()
    random.seed(seed)
    np.random.seed(seed)
    err = io.StringIO()
    old = os.getcwd() if cwd else None
    if cwd:
        os.chdir(cwd)
    try:
        with contextlib.redirect_stderr(err):
            try:
                call_repo('Generator()', gen_pkg.Generator, argv)
            except SystemExit as e:
                return 'exit', e.code, err.getvalue()
        return 'ok', None, err.getvalue()
    finally:
        if old:
            os.chdir(old)
        random.setstate(st_py)
        np.random.set_state(st_np)


def read_outputs(outdir, numinst, allow_extra=False):
    """Texts of 0.txt.. in order; checks the directory holds exactly those files
    (allow_extra: the directory was in use before the run, older files may remain)."""
    if not os.path.isdir(outdir):
        raise Violation('no_output_dir', 'accepted run did not create %s' % outdir)
    names = sorted(os.listdir(outdir))
    want = sorted('%d.txt' % i for i in range(numinst))
    if allow_extra:
        names = [n for n in names if n in want]
    if names != want:
        raise Violation('file_set', 'output directory holds %r, expected %r' % (names, want))
    return [open(os.path.join(outdir, '%d.txt' % i)).read() for i in range(numinst)]


def na_of(v):
    return 3 if v['mp'] == 'spa' else 2
