"""Driving the repository's Solver from a concrete case."""
import atexit
import contextlib
import io
import os
import shutil
import tempfile

from .common import HarnessError, Violation, call_repo
from . import refbackend, refmodel, restext, strategies

_WORKDIR = {}


def workdir():
    """Per-process scratch directory (run-time only, removed at exit)."""
    pid = os.getpid()
    if pid not in _WORKDIR:
        base = os.environ.get('VERIF_RUN_TMP') or (
            '/dev/shm' if os.path.isdir('/dev/shm') and os.access('/dev/shm', os.W_OK) else None)
        d = tempfile.mkdtemp(prefix='mpverif-%d-' % pid, dir=base)
        _WORKDIR.clear()
        _WORKDIR[pid] = d
        atexit.register(shutil.rmtree, d, True)
    return _WORKDIR[pid]


def cleanup():
    """Remove this process's scratch directory (pool workers do not run atexit handlers)."""
    d = _WORKDIR.pop(os.getpid(), None)
    if d:
        shutil.rmtree(d, True)


def write_instance(text, name='inst.txt'):
    path = os.path.join(workdir(), name)
    with open(path, 'w', newline='') as f:      # line ends exactly as rendered (\n or \r\n)
        f.write(text)
    return path


def make_solver(argv, facet='Solver()'):
    """Solver(argv); SystemExit on admissible input is a violation for the
    callers that use this helper (C16 calls the constructor itself)."""
    from matchingproblems import solver as solver_pkg
    err = io.StringIO()
    try:
        with contextlib.redirect_stderr(err):
            return call_repo(facet, solver_pkg.Solver, argv)
    except SystemExit as e:
        raise Violation('refused_admissible',
                        'Solver(%r) exited with %r: %s' % (argv, e.code,
                                                           err.getvalue().strip()[-200:]))


class Run(object):
    """One complete LP-mode run of the repository on a case."""

    def __init__(self, inst, opts, mode='eb', choices=(), noise=None, time_limit=None,
                 hook=None, text=None, salt=0, decoy=None, presolves=0, threads=None):
        self.threads = threads
        self.decoy = decoy
        self.presolves = presolves
        self.inst = inst
        self.opts = opts
        self.text = text if text is not None else refmodel.render(inst, noise)
        self.path = write_instance(self.text)
        self.argv = strategies.build_argv(opts, self.path, inst['na'])
        self.backend = refbackend.Backend(mode, choices, hook=hook, salt=salt)
        self.time_limit = time_limit
        self.solver = None

    def solve(self):
        self.solver = make_solver(self.argv)
        if self.decoy:
            # another Solver object created (and possibly solved) between the construction
            # and the solve of the one under test: objects must not share state
            dpath = self.path
            if self.decoy.get('inst'):
                dpath = write_instance(refmodel.render(self.decoy['inst']), 'decoy.txt')
            dargv = strategies.build_argv(self.decoy['opts'], dpath, self.inst['na'])
            try:
                other = make_solver(dargv)
                if self.decoy.get('solve'):
                    with refbackend.Backend('eb' if self.backend.mode != 'cbc' else 'cbc',
                                            self.backend.choices, salt=self.backend.salt):
                        other.solve(msg=False, timeLimit=None, threads=None, write=False)
                    other.get_results_long()
                    other.get_debug()
            except (Violation, Exception):
                pass        # the decoy's own behaviour is not what this case checks
        for t in range(self.presolves):
            # earlier solve() calls on the same object (their results are not looked at)
            with refbackend.Backend(self.backend.mode, self.backend.choices,
                                    salt=(self.backend.salt + 13 * (t + 1)) % 60,
                                    keep_sets=False):
                call_repo('solve()', self.solver.solve, msg=False, timeLimit=self.time_limit,
                          threads=None, write=False)
        with self.backend:
            call_repo('solve()', self.solver.solve, msg=False, timeLimit=self.time_limit,
                      threads=self.threads, write=False)
        return self

    def results(self, which='short'):
        fn = {'short': self.solver.get_results_short, 'long': self.solver.get_results_long,
              'default': self.solver.get_results, 'debug': self.solver.get_debug}[which]
        return call_repo('get_results_%s()' % which if which != 'debug' else 'get_debug()', fn)

    def parsed(self, which='short'):
        return restext.parse_results(self.results(which))


def describe_case(case):
    """Human-readable rendering of a solver-side case for evidence samples."""
    d = {}
    if 'inst' in case:
        d['instance_file'] = refmodel.render(case['inst'], case.get('noise'))
        d['na'] = case['inst']['na']
    if 'opts' in case:
        d['argv'] = strategies.build_argv(case['opts'], '<file>', case['inst']['na'],
                                          bf=case.get('bf', False))
    if case.get('decoy'):
        d['decoy_argv'] = strategies.build_argv(case['decoy']['opts'], '<file>', case['inst']['na'])
        d['decoy_solved'] = bool(case['decoy'].get('solve'))
        if case['decoy'].get('inst'):
            d['decoy_instance_file'] = refmodel.render(case['decoy']['inst'])
    for k in ('threads', 'presolves', 'choices', 'salt', 'mode', 'plan', 'ops', 'time_limit', 'kind', 'matching'):
        if k in case:
            d[k] = case[k]
    return d
