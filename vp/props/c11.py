"""C11 - printed statistics and listings describe the printed matching.

Oracle: recomputation from the instance FILE (read back with the independent
reader) and the printed 'matching:' line.
"""
import re

from hypothesis import strategies as st

from .. import refmodel, solverio, strategies
from ..common import Result, Violation
from ..strategies import pct
from . import _lp

ID = 'C11'
LEVEL = 'exploration'
ENGINE = 'hypothesis + exact enumerating MILP back end (adversarial choice) + CBC sample'
RULE = ('case = (instance, option set tilted to no criterion / minsize / few criteria so that '
        'the adversarial choice walks through all feasible matchings, choice list); non-trivial '
        '= the printed matching has an unassigned student or a lecturer with >= 2 assignees or '
        'a tie-ranked assignment, and the run is Optimal; distinct = distinct (instance, '
        'printed matching)')
ASSUMPTIONS = [
    'student i\'s project is the i-th number of the matching line, 0 = unassigned',
    'lecturer costs are 0 when -twopl is not given',
    'small scope: <= 4/5 students, <= 3/4 projects',
]


LARGE = {'quick': dict(n1=8, n2=13, n2min=10, n3=5, lmax=6),
         'thorough': dict(n1=12, n2=24, n2min=10, n3=8, lmax=8)}


def budget(tier):
    return 10000 if tier == 'quick' else 300000


@st.composite
def _cases(draw, tier):
    large = pct(draw) < 12
    mode = 'cbc' if (large or pct(draw) < 6) else 'eb'
    salt = draw(strategies.salts)
    if large:
        # ids with two digits, many projects per lecturer: no enumeration needed for this oracle
        k = pct(draw)
        if k < 40:
            inst = draw(strategies.instances(LARGE[tier]))
        elif k < 80:
            inst = draw(_lp.embedded_instances())
        else:
            inst = draw(strategies.crowd_instances(two_sided=draw(st.booleans())))
        opts = draw(strategies.option_sets(inst, min_crit=1, max_crit=3, stab=False))
        return {'inst': inst, 'opts': opts, 'choices': [], 'mode': 'cbc', 'salt': salt}
    odd_targets = pct(draw) < 12
    inst = draw(strategies.instances(strategies.SIZES[tier]))
    if odd_targets and inst['na'] == 3:
        # a target is free text in a hand-written file: also below the lower or above the upper
        # quota.  |load - target| is defined all the same, and this oracle needs nothing else.
        inst['lt'] = [draw(st.sampled_from([0, 1, 2, 3, 5, 9])) for _ in range(inst['n3'])]
        inst['cls'] = inst.get('cls', '?') + '+odd_targets'
    shape = draw(st.sampled_from(['none', 'none', 'minsize', 'few', 'few', 'balance']
                                 if odd_targets else ['none', 'none', 'minsize', 'few', 'few']))
    if shape == 'balance':
        opts = draw(strategies.option_sets(inst, min_crit=1, max_crit=2,
                                           names=['lmb', 'lsb', 'mincostlsb', 'maxsize']))
    elif shape == 'none':
        opts = draw(strategies.option_sets(inst, min_crit=0, max_crit=0))
    elif shape == 'minsize':
        opts = draw(strategies.option_sets(inst, min_crit=1, max_crit=1, names=['minsize']))
    else:
        opts = draw(strategies.option_sets(inst, min_crit=1, max_crit=2))
    choices = draw(strategies.choice_lists_nonempty) if mode == 'eb' else []
    decoy = _lp.draw_decoy(draw, inst)
    _ret = {'inst': inst, 'opts': opts, 'choices': choices, 'mode': mode, 'salt': salt}
    return _lp.attach_decoy(_ret, decoy)


def strategy(tier):
    return _cases(tier)


describe = solverio.describe_case

_ST = re.compile(r'^s_(\d+): p_(\d+) \(l_(\d+)\) $')
_ST0 = re.compile(r'^s_(\d+) no assignment$')
_PR = re.compile(r'^p_(\d+) \(l_(\d+)\): (.*?) {4}(\d+)/(\d+)$')
_LE = re.compile(r'^l_(\d+): (.*?) {4}(\d+)/(\d+) \((\d+)\)$')


def check_listings(sections, I, M):
    n1, n2, n3 = I['n1'], I['n2'], I['n3']
    for name in ('Student_assignments', 'Project_assignments', 'Lecturer_assignments'):
        if name not in sections:
            raise Violation('listing_missing', 'long format lacks the %s listing' % name)
    # students
    rows = sections['Student_assignments']
    if len(rows) != n1:
        raise Violation('listing_students', '%d student lines for %d students' % (len(rows), n1))
    for i, line in enumerate(rows):
        m, m0 = _ST.match(line), _ST0.match(line)
        if M[i]:
            want = (i + 1, M[i], I['plec'][M[i] - 1])
            if not m or tuple(int(x) for x in m.groups()) != want:
                raise Violation('listing_students', 'line %d is %r, expected s_%d: p_%d (l_%d)'
                                % ((i + 1, line) + want))
        elif not m0 or int(m0.group(1)) != i + 1:
            raise Violation('listing_students', 'line %d is %r, expected s_%d no assignment'
                            % (i + 1, line, i + 1))
    # projects
    rows = sections['Project_assignments']
    if len(rows) != n2:
        raise Violation('listing_projects', '%d project lines for %d projects' % (len(rows), n2))
    for j, line in enumerate(rows):
        m = _PR.match(line)
        if not m:
            raise Violation('listing_projects', 'unparseable project line %r' % line)
        pj, lk, body, occ, cap = m.groups()
        assignees = [i + 1 for i in range(n1) if M[i] == j + 1]
        want_body = ''.join('s_%d ' % s for s in assignees) if assignees else 'no assignment '
        if (int(pj), int(lk)) != (j + 1, I['plec'][j]) or body + ' ' != want_body + ' ' and \
                body != want_body.rstrip(' ') and body != want_body:
            raise Violation('listing_projects', 'project line %r, expected p_%d (l_%d): %s'
                            % (line, j + 1, I['plec'][j], want_body))
        if int(occ) != len(assignees) or int(cap) != I['puq'][j]:
            raise Violation('listing_projects', 'project line %r shows %s/%s, expected %d/%d'
                            % (line, occ, cap, len(assignees), I['puq'][j]))
    # lecturers
    rows = sections['Lecturer_assignments']
    if len(rows) != n3:
        raise Violation('listing_lecturers', '%d lecturer lines for %d lecturers' % (len(rows), n3))
    for k, line in enumerate(rows):
        m = _LE.match(line)
        if not m:
            raise Violation('listing_lecturers', 'unparseable lecturer line %r' % line)
        lk, body, occ, cap, tgt = m.groups()
        assignees = [(i + 1, M[i]) for i in range(n1) if M[i] and I['plec'][M[i] - 1] == k + 1]
        want_body = ''.join('s_%d (p_%d) ' % a for a in assignees) if assignees \
            else 'no assignment '
        if int(lk) != k + 1 or body.rstrip(' ') != want_body.rstrip(' '):
            raise Violation('listing_lecturers', 'lecturer line %r, expected l_%d: %s'
                            % (line, k + 1, want_body))
        if (int(occ), int(cap), int(tgt)) != (len(assignees), I['luq'][k], I['lt'][k]):
            raise Violation('listing_lecturers', 'lecturer line %r shows %s/%s (%s), expected '
                            '%d/%d (%d)' % (line, occ, cap, tgt, len(assignees), I['luq'][k],
                                            I['lt'][k]))


def check_stats(parsed, oracle, which):
    M = parsed['matching']
    want = oracle.stats(M)
    for k in ('size', 'cost', 'cost_sq', 'degree', 'profile', 'max_lec_abs_diff',
              'sum_lec_abs_diff'):
        if k not in parsed['stats']:
            raise Violation('statistic_missing:' + k, '%s format lacks the %s line' % (which, k))
        got = parsed['stats'][k]
        w = want[k]
        if (list(got) if isinstance(got, (list, tuple)) else got) != \
                (list(w) if isinstance(w, (list, tuple)) else w):
            raise Violation('statistic:' + k, '%s format prints %s = %r; recomputed from the file '
                            'and the printed matching %r: %r' % (which, k, got, M, w))


def run_case(case):
    try:
        c = _lp.run_lp(case)
    except Violation as v:
        if _lp.owns_exceptions(v):
            return Result(False, ['skipped:' + v.facet.split(':')[0]])
        raise
    labels = _lp.base_labels(c, case)
    if c.short['pulp_status'] != 'Optimal' or c.short['timeout'] is not None:
        return Result(False, labels)
    # the instance as the FILE denotes it, read by the independent reader
    I, _ = refmodel.parse(c.run.text, c.inst['na'])
    if not c.opts['twopl']:
        I['lprefs'] = None
    o = refmodel.Oracle(I, c.opts['twopl'], c.opts['pc'])
    M = _lp.reported_matching(c)
    if M is None:
        raise Violation('no_matching', 'status Optimal but no matching line')
    if not o.acceptable(M):
        return Result(False, labels + ['skipped:unacceptable_matching'])   # C01's business
    check_stats(c.short, o, 'short')
    check_stats(c.long, o, 'long')
    check_listings(c.long['sections'], o.I, M)
    pc, lc = o.counts(M)
    nt = (0 in M) or any(x >= 2 for x in lc)
    if 0 in M:
        labels.append('unassigned_student')
    if not any(M):
        labels.append('empty_matching')
    if any(x >= 2 for x in lc):
        labels.append('lecturer_with_2+')
    if any(x == 0 for x in pc):
        labels.append('unused_project')
    if o.lrank is None:
        labels.append('lecturer_cost_zero_one_sided')
    return Result(nt, labels, {'solves': len(c.records)},
                  key={'inst': case['inst'], 'twopl': c.opts['twopl'], 'M': list(M)})


MANIFEST = {
    'technique': 'property-based testing; recomputation oracle from the instance file and the '
                 'printed matching line; adversarial solution choice walks the feasible set',
    'text': 'For generated cases the statistics of both result formats and the three listings of '
            'the long format are recomputed by the reference model from the instance file (read '
            'back with an independent reader) and the printed matching line, and compared '
            'field by field. The enumerating back end returns a drawn feasible/optimal solution, '
            'so empty matchings, unassigned students, unused projects and loaded lecturers are '
            'all reached. Small-scope exploration.',
    'note': 'Trusted: reference model statistics; the long-format line grammar as transcribed '
            'in vp/props/c11.py from the shipped output.',
}
MANIFEST['text'] += (' ' + 'The enumerating back end returns either the tightest or the slackest optimal values of the auxiliary variables; 12% of the cases are large or sparse-id-embedded instances on real CBC; cases may carry decoy objects on sibling instances.')
MANIFEST['text'] += (' ' + '12% of the small cases have lecturer targets outside [lower, upper] quota (with load-balancing criteria): the statistics are recomputed from the file all the same.')
