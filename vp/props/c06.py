"""C06 - the stability checker answers True exactly for assignments without a blocking pair.

Domain: two-sided instances x ALL assignments of students to listed projects
that respect project and lecturer upper quotas (lower quotas not required),
enumerated exhaustively per instance; plus -stab runs whose
'stability_correct:' line is compared with the oracle.
Oracle: refmodel.Oracle.blocking_pairs (SPA-STL definition).
"""
from hypothesis import strategies as st

from .. import refmodel, solverio, strategies
from ..common import Result, Violation, call_repo
from ..strategies import pct
from . import _lp

ID = 'C06'
LEVEL = 'exploration'
ENGINE = 'hypothesis (instances) + exhaustive enumeration of assignments per instance'
RULE = ('case kind "large": instance with up to 14 students/projects and 13 lecturers (two-digit ids) '
        'and 8 drawn assignments; case kind "checker": a two-sided instance; every assignment respecting upper quotas is '
        'passed to Model.check_stability (counter checker_calls). case kind "lp": a -stab run '
        'whose stability_correct line is compared with the oracle. non-trivial = the instance '
        'has at least one stable and one unstable assignment (checker) / the run is Optimal '
        '(lp); distinct = distinct case')
ASSUMPTIONS = [
    'SPA-STL blocking-pair definition with strict preference and dense tie-aware ranks',
    'a full project/lecturer with no assignee (capacity 0) blocks nothing',
    'the assignment argument is the list of Pair objects / None per student that the '
    'repository itself builds',
]


LARGE = dict(n1=14, n2=14, n2min=9, n3=13, lmax=5)


def budget(tier):
    return 8000 if tier == 'quick' else 250000


@st.composite
def _cases(draw, tier):
    kind = 'lp' if pct(draw) < 15 else ('large' if pct(draw) < 12 else 'checker')
    salt = draw(strategies.salts)
    if kind == 'checker' and pct(draw) < 25:
        # a small instance embedded under sparse two-digit ids (1, 11, 12, 21 ...): all
        # assignments of the real students are still enumerated
        cls = draw(st.sampled_from(['generic', 'shared_tight', 'shared_tight', 'heavy_ties',
                                    'zero_capacity', 'two_agent']))
        inst = draw(strategies.instances(strategies.SIZES['tiny'], two_sided=True, cls=cls))
        return {'kind': 'embedded', 'inst': inst, 'maps': draw(strategies.id_maps(inst))}
    if kind == 'large':
        # two-digit ids: assignments are drawn, not enumerated
        if pct(draw) < 30:
            inst = draw(strategies.crowd_instances(two_sided=True))
        else:
            inst = draw(strategies.instances(LARGE, two_sided=True, cls=draw(st.sampled_from(
                ['generic', 'generic', 'shared_tight', 'heavy_ties', 'two_agent']))))
        picks = [[draw(st.sampled_from(strategies._CH)) for _ in range(inst['n1'])]
                 for _ in range(8)]
        return {'kind': 'large', 'inst': inst, 'picks': picks}
    cls = draw(st.sampled_from(['generic', 'shared_tight', 'shared_tight', 'heavy_ties',
                                'zero_capacity', 'zero_capacity', 'lower_quotas', 'two_agent',
                                'more_lecturers', 'lecturer_ties_only']))
    inst = draw(strategies.instances(strategies.SIZES[tier], two_sided=True, cls=cls))
    if kind == 'lp' and pct(draw) < 20:
        # hundreds of students on one hospital / lecturer: the matching comes from real CBC
        inst = draw(strategies.crowd_instances(two_sided=True))
        opts = draw(strategies.option_sets(inst, min_crit=0, max_crit=1, twopl=True, stab=True,
                                           pc=False, names=['maxsize', 'minsize', 'mincost']))
        return {'kind': 'lp', 'inst': inst, 'opts': opts, 'salt': salt, 'choices': [],
                'mode': 'cbc'}
    if kind == 'lp':
        opts = draw(strategies.option_sets(inst, min_crit=0, max_crit=2, twopl=True, stab=True))
        return {'kind': 'lp', 'inst': inst, 'opts': opts, 'salt': salt,
                'choices': draw(strategies.choice_lists), 'mode': 'eb'}
    prior = draw(strategies.siblings(inst)) if pct(draw) < 15 else None
    case = {'kind': 'checker', 'inst': inst, 'prior': prior}
    if pct(draw) < 30:
        # the Model has been through a solve (any options, -pc or not, no -stab needed) before
        # the checker is asked: what a solve leaves on the Model must not change the answers
        case['presolve'] = draw(strategies.option_sets(inst, min_crit=0, max_crit=2, twopl=True,
                                                       pc=draw(st.booleans())))
        case['salt'] = salt
        case['choices'] = draw(strategies.choice_lists)
    return case


def strategy(tier):
    return _cases(tier)


def describe(case):
    inst = case['inst']
    if case['kind'] == 'embedded':
        m = case['maps']
        inst = strategies.embed(inst, m['smap'], m['pmap'], m['lmap'])[0]
    d = {'kind': case['kind'], 'instance_file': refmodel.render(inst)}
    if 'opts' in case:
        d['argv'] = strategies.build_argv(case['opts'], '<file>', case['inst']['na'])
    return d


def _run_lp(case):
    try:
        c = _lp.run_lp(case)
    except Violation as v:
        if v.exc and 'check_stability' in v.exc[1]:
            raise Violation('checker_raises', 'get_results under -stab: ' + v.detail, exc=v.exc)
        if _lp.owns_exceptions(v):
            return Result(False, ['skipped:exception'])
        raise
    labels = ['kind=lp', 'status=' + str(c.short['pulp_status'])]
    if c.short['pulp_status'] != 'Optimal':
        return Result(False, labels)
    M = c.short['matching']
    for which, parsed in (('short', c.short), ('long', c.long)):
        sc = parsed['stability_correct']
        if sc is None:
            raise Violation('stability_correct_missing', '-stab run, %s format has no '
                            'stability_correct line' % which)
        if M is not None and c.oracle.acceptable(M) and c.oracle.respects_upper(M):
            want = c.oracle.stable(M)
            if sc != want:
                raise Violation('stability_correct_wrong', '%s format prints stability_correct: %r '
                                'for matching %r; blocking pairs by definition: %r'
                                % (which, sc, M, c.oracle.blocking_pairs(M)[:3]))
    return Result(True, labels)


def _assignments(case, o):
    """Assignments to enumerate (small) or to build from the drawn picks (large)."""
    if case['kind'] == 'embedded':
        small = refmodel.Oracle(case['inst'], True)
        for M in small.assignments():
            if small.respects_upper(M):
                yield case['_lift'](M)
        return
    if case['kind'] != 'large':
        for M in o.assignments():
            if o.respects_upper(M):
                yield M
        return
    I = o.I
    for picks in case['picks']:
        pc = [0] * o.n2
        lc = [0] * o.n3
        M = []
        for i, r in enumerate(o.srank):
            opts = [0] + [p for g in I['prefs'][i] for p in g]
            p = opts[picks[i] % len(opts)]
            if p and pc[p - 1] < I['puq'][p - 1] and lc[o.plec[p - 1] - 1] < I['luq'][o.plec[p - 1] - 1]:
                pc[p - 1] += 1
                lc[o.plec[p - 1] - 1] += 1
                M.append(p)
            else:
                M.append(0)
        yield tuple(M)


def run_case(case):
    if case['kind'] == 'lp':
        return _run_lp(case)
    inst = case['inst']
    if case['kind'] == 'embedded':
        m = case['maps']
        inst, lift = strategies.embed(case['inst'], m['smap'], m['pmap'], m['lmap'])
        case = dict(case, _lift=lift)
    if case.get('prior'):
        # another Model in the same process is asked about the same assignments first
        pm = solverio.make_solver(['-f', solverio.write_instance(
            refmodel.render(case['prior']), 'prior.txt'), '-na', str(inst['na']), '-twopl']).model
        po = refmodel.Oracle(case['prior'], True)
        for M in po.assignments():
            try:
                pm.check_stability([None if not p else next(
                    pr for pr in pm.pairs[i] if pr.projectID == p) for i, p in enumerate(M)])
            except Exception:
                pass
    text = refmodel.render(inst)
    path = solverio.write_instance(text)
    argv = ['-f', path, '-na', str(inst['na']), '-twopl']
    labels = set(['kind=' + case['kind']])
    if case.get('presolve'):
        from .. import refbackend
        sv = solverio.make_solver(strategies.build_argv(case['presolve'], path, inst['na']))
        try:
            with refbackend.Backend('eb', case.get('choices') or (), salt=case.get('salt', 0),
                                    keep_sets=False):
                call_repo('solve()', sv.solve, msg=False, timeLimit=None, threads=None,
                          write=False)
            labels.add('model_after_solve' + ('_pc' if case['presolve']['pc'] else ''))
        except Violation:
            labels.add('presolve_failed')      # not this property's statement
        model = sv.model
    else:
        model = solverio.make_solver(argv).model
    o = refmodel.Oracle(inst, True)
    nstable = nunstable = 0
    I = o.I
    for M in _assignments(case, o):
        arg = []
        for i, p in enumerate(M):
            if p == 0:
                arg.append(None)
            else:
                arg.append(next(pr for pr in model.pairs[i] if pr.projectID == p))
        try:
            got = call_repo('check_stability', model.check_stability, arg)
        except Violation as v:
            raise Violation('checker_raises', 'check_stability(%r): %s' % (M, v.detail), exc=v.exc)
        if not isinstance(got, bool):
            raise Violation('checker_not_bool', 'check_stability(%r) returned %r' % (M, got))
        bp = o.blocking_pairs(M)
        if got != (not bp):
            raise Violation('checker_wrong:' + ('misses_' + bp[0][2] if bp else 'false_alarm'),
                            'check_stability(%r) = %r; blocking pairs by definition: %r'
                            % (M, got, bp[:3]))
        if bp:
            nunstable += 1
            kinds = frozenset(c for _, _, c in bp)
            if len(kinds) == 1:
                labels.add('only_' + next(iter(kinds)))
        else:
            nstable += 1
        pc, lc = o.counts(M)
        if any(lc[k] == I['luq'][k] and lc[k] > 0 for k in range(o.n3)):
            labels.add('full_lecturer')
        if any(lc[k] == 0 and I['luq'][k] > 0 for k in range(o.n3)):
            labels.add('empty_lecturer')
        if any(lc[k] == 0 and I['luq'][k] == 0 for k in range(o.n3)) or \
                any(pc[j] == 0 and I['puq'][j] == 0 for j in range(o.n2)):
            labels.add('full_without_assignee')
    if case.get('prior'):
        labels.add('prior_sibling_model')
    labels.update(l for l in strategies.instance_labels(inst)
                  if l.startswith(('ties', 'shared', 'tight', 'zero', 'na=')))
    return Result(nstable > 0 and nunstable > 0, sorted(labels),
                  {'checker_calls': nstable + nunstable, 'stable': nstable,
                   'unstable': nunstable})


MANIFEST = {
    'technique': 'property-based testing with exhaustive per-instance enumeration; differential '
                 'against a definition-level blocking-pair oracle',
    'text': 'For generated two-sided instances every assignment that respects upper quotas is '
            'passed to Model.check_stability on the model the repository itself builds from the '
            'file, and the boolean is compared with the blocking-pair definition evaluated by '
            'the reference model; -stab runs additionally compare the printed stability_correct '
            'line. Exhaustive per instance, sampled over instances: exploration.',
    'note': 'Trusted: the blocking-pair definition as transcribed in refmodel.Oracle.blocking_pairs.',
}
MANIFEST['text'] += (' ' + 'A quarter of the checker cases embed the instance under sparse two- and three-digit ids (all assignments of the real students still enumerated); a large kind draws assignments on instances with up to 14 x 14 x 13 agents; 15% of the cases first ask a sibling Model about the same assignments (no state may leak).')
MANIFEST['text'] += (' ' + '30% of the checker cases ask a Model that has just been through a solve (any options, with or without -pc).')
