"""C05 - with -stab the solver searches exactly the stable matchings.

Oracle: S = {valid M : no blocking pair under the SPA-STL definition} by
enumeration.  (i) feasible set of the first LpProblem == S (both inclusions),
(ii) the printed matching is in S, (iii) Optimal iff S non-empty, (iv) with
-maxsize / -minsize at position 1 the printed size is the max / min over S.
Thorough tier adds an exhaustive sweep of a tiny universe (2 students).
"""
import itertools

from hypothesis import strategies as st

from .. import solverio, strategies
from ..common import HarnessError, Result, Violation
from ..strategies import pct
from . import _lp

ID = 'C05'
LEVEL = 'exploration'
ENGINE = 'hypothesis + exact enumerating MILP back end + CBC sample (+ tiny-universe sweep in thorough)'
RULE = ('case = (two-sided instance from a mix forcing ties on both sides, shared lecturers, '
        'tight lecturer capacity, zero capacities, lower quotas; option set containing -stab '
        '-twopl with 0..3 criteria, -pc; choice list); non-trivial = the instance has both a '
        'stable and an unstable valid matching; distinct = distinct case. Labels record which '
        'blocking-pair clause is the only reason some valid matching is unstable.')
ASSUMPTIONS = [
    'SPA-STL blocking pair definition as quoted in the property (strict preference, dense ranks); '
    'a full project/lecturer without assignees (capacity 0) blocks nothing',
    '-pc changes validity only; the stability clauses are unchanged',
    'small scope: <= 4/5 students, <= 3/4 projects, <= 4/5 lecturers',
]
EXHAUSTIVE = {'quick': False, 'thorough': False}   # the sweep is exhaustive, the drawn part is not


def budget(tier):
    return 10000 if tier == 'quick' else 300000


@st.composite
def _cases(draw, tier):
    large = pct(draw) < 8
    mode = 'cbc' if pct(draw) < 7 else ('both' if tier == 'thorough' and pct(draw) < 6 else 'eb')
    salt = draw(strategies.salts)
    cls = draw(st.sampled_from(['generic', 'shared_tight', 'shared_tight', 'heavy_ties',
                                'zero_capacity', 'lower_quotas', 'two_agent', 'two_agent',
                                'more_lecturers', 'lecturer_ties_only']))
    if (not large) and pct(draw) < 12:
        # a tiny instance embedded under sparse two-digit ids; real CBC on the big file, the
        # stable set is enumerated on the tiny one
        tiny = draw(strategies.instances(strategies.SIZES['tiny'], two_sided=True, cls=cls
                                         if cls != 'more_lecturers' else 'generic'))
        first = draw(st.sampled_from([None, 'maxsize', 'maxsize', 'minsize', 'mincost', 'gre']))
        opts = draw(strategies.option_sets(tiny, min_crit=1 if first else 0,
                                           max_crit=1 if first else 0,
                                           names=[first] if first else None,
                                           twopl=True, stab=True, pc=False))
        return {'inst': tiny, 'opts': opts, 'choices': [], 'mode': 'cbc', 'salt': salt,
                'maps': draw(strategies.id_maps(tiny))}
    if large:
        # two-digit ids, real CBC, no enumeration: the printed matching must be valid and
        # unblocked and stability_correct must say so
        if pct(draw) < 20:
            inst = draw(strategies.crowd_instances(two_sided=True))
        else:
            inst = draw(strategies.instances(_lp.LARGE[tier], two_sided=True,
                                             cls=draw(st.sampled_from(['generic', 'two_agent',
                                                                       'shared_tight']))))
        opts = draw(strategies.option_sets(inst, min_crit=1, max_crit=2, twopl=True, stab=True,
                                           names=['maxsize', 'minsize', 'mincost', 'gre']))
        return {'inst': inst, 'opts': opts, 'choices': [], 'mode': 'cbc', 'salt': salt,
                'large': True}
    gadget = pct(draw) < 6
    inst = draw(strategies.instances(strategies.SIZES[tier], two_sided=True, cls=cls))
    first = draw(st.sampled_from([None, None, 'maxsize', 'minsize']))
    if gadget:
        # stable matchings of different sizes by construction: "every optimum (for example the
        # maximum size of a stable matching) is taken over all stable valid matchings"
        inst = draw(strategies.size_gadget_instances())
        first = draw(st.sampled_from(['maxsize', 'minsize', 'maxsize', 'minsize', None]))
    if first:
        opts = draw(strategies.option_sets(inst, min_crit=1, max_crit=1, names=[first],
                                           twopl=True, stab=True))
    else:
        opts = draw(strategies.option_sets(inst, min_crit=0, max_crit=3, twopl=True, stab=True))
    choices = draw(strategies.choice_lists) if mode != 'cbc' else []
    decoy = _lp.draw_decoy(draw, inst)
    _ret = {'inst': inst, 'opts': opts, 'choices': choices, 'mode': mode, 'salt': salt}
    return _lp.attach_decoy(_ret, decoy)


def strategy(tier):
    return _cases(tier)


def _list_shapes(items):
    """All preference lists (ordered, with ties) over non-empty subsets of items (<= 2 items)."""
    out = []
    for r in range(1, len(items) + 1):
        for sub in itertools.permutations(items, r):
            out.append([[x] for x in sub])
        if r == 2:
            for sub in itertools.combinations(items, 2):
                out.append([list(sub)])
    return out


def _orderings(items):
    if not items:
        return [[]]
    if len(items) == 1:
        return [[[items[0]]]]
    a, b = items
    return [[[a], [b]], [[b], [a]], [[a, b]]]


def exhaustive(tier):
    """Tiny universe: 2 students, <=2 projects, <=2 lecturers, quotas in {0,1,2}."""
    if tier != 'thorough':
        return
    base_opts = {'twopl': True, 'stab': True, 'pc': False, 'crit': [],
                 'order': ['f', 'na', 'twopl', 'stab']}
    for n2 in (1, 2):
        shapes = _list_shapes(list(range(1, n2 + 1)))
        for n3 in (1, 2):
            for p1 in shapes:
                for p2 in shapes:
                    for puq in itertools.product((0, 1, 2), repeat=n2):
                        for plec in itertools.product(range(1, n3 + 1), repeat=n2):
                            for luq in itertools.product((0, 1, 2), repeat=n3):
                                prefs = [p1, p2]
                                rankers = []
                                for k in range(n3):
                                    rankers.append([i + 1 for i in range(2) if any(
                                        plec[p - 1] == k + 1 for g in prefs[i] for p in g)])
                                for lp in itertools.product(*[_orderings(r) for r in rankers]):
                                    inst = {'na': 3, 'n1': 2, 'n2': n2, 'n3': n3, 'prefs': prefs,
                                            'plq': [0] * n2, 'puq': list(puq),
                                            'plec': list(plec), 'llq': [0] * n3,
                                            'lt': list(luq), 'luq': list(luq),
                                            'lprefs': [list(x) for x in lp], 'cls': 'tiny'}
                                    yield {'inst': inst, 'opts': base_opts, 'choices': [],
                                           'mode': 'eb'}


def describe(case):
    if case.get('maps'):
        m = case['maps']
        case = dict(case, inst=strategies.embed(case['inst'], m['smap'], m['pmap'], m['lmap'])[0])
    return solverio.describe_case(case)


def run_embedded(case):
    from .. import refmodel
    m = case['maps']
    tiny = case['inst']
    big, lift = strategies.embed(tiny, m['smap'], m['pmap'], m['lmap'])
    try:
        c = _lp.run_lp(dict(case, inst=big), want_long=False)
    except Violation as v:
        if _lp.owns_exceptions(v):
            return Result(False, ['skipped:exception'])
        raise
    ob = c.oracle
    ot = refmodel.Oracle(tiny, True, False)
    S = [M for M in ot.assignments() if ot.valid(M) and ot.stable(M)]
    for M in S[:3]:     # the embedding must preserve stability (self-check of the harness)
        if not (ob.valid(lift(M)) and ob.stable(lift(M))):
            raise HarnessError('embedding does not preserve stability of %r' % (M,))
    labels = ['embedded', 'status=' + str(c.short['pulp_status'])]
    M = _lp.reported_matching(c)
    if S:
        if c.short['pulp_status'] != 'Optimal' or M is None:
            raise Violation('stable_exists_not_optimal', 'embedded instance: %d stable matchings '
                            'exist (e.g. %r) but status is %r'
                            % (len(S), lift(S[0]), c.short['pulp_status']))
        if ob.valid(M):
            bp = ob.blocking_pairs(M)
            if bp:
                raise Violation('reported_unstable', 'printed matching %r is blocked by %r'
                                % (M, bp[:3]))
        if c.criteria and c.criteria[0][0] in ('maxsize', 'minsize'):
            sizes = [ob.size(lift(X)) for X in S]
            want = max(sizes) if c.criteria[0][0] == 'maxsize' else min(sizes)
            if c.short['stats'].get('size') != want:
                raise Violation('stable_size:' + c.criteria[0][0], 'printed size %r, %s size of a '
                                'stable matching is %d' % (c.short['stats'].get('size'),
                                                           c.criteria[0][0][:3], want))
    elif c.short['pulp_status'] == 'Optimal':
        raise Violation('no_stable_but_optimal', 'embedded instance has no stable valid matching '
                        'but status is Optimal with matching %r' % (M,))
    return Result(bool(S) and len(S) < sum(1 for X in ot.assignments() if ot.valid(X)), labels)


def run_case(case):
    if case.get('maps'):
        return run_embedded(case)
    try:
        c = _lp.run_lp(case, want_long=False)
    except Violation as v:
        if _lp.owns_exceptions(v):
            return Result(False, ['skipped:' + v.facet.split(':')[0]])
        raise
    o = c.oracle
    if case.get('large'):
        M = _lp.reported_matching(c)
        labels = _lp.base_labels(c, case) + ['large']
        if c.short['pulp_status'] == 'Optimal' and M is not None and o.valid(M):
            bp = o.blocking_pairs(M)
            if bp:
                raise Violation('reported_unstable', 'printed matching %r is blocked by %r'
                                % (M, bp[:3]))
            return Result(any(M), labels)
        return Result(False, labels)
    valid = _lp.valid_set(c)
    S, unstable_clauses = [], []
    for M in valid:
        bp = o.blocking_pairs(M)
        if bp:
            unstable_clauses.append(frozenset(cl for _, _, cl in bp))
        else:
            S.append(M)
    Sset = set(S)
    labels = _lp.base_labels(c, case)
    # (i) the integer program's feasible set is exactly S
    recs = [r for r in c.records if r.F is not None]
    if recs:
        F = recs[0].matchings('F', o.n1)
        Fset = set(F)
        for Mf in F:
            if isinstance(Mf, str) or not o.valid(Mf):
                continue    # C01's statement
            if Mf not in Sset:
                raise Violation('ip_admits_unstable', 'the integer program admits %r, which is '
                                'blocked by %r' % (Mf, o.blocking_pairs(Mf)[:3]))
        for Ms in S:
            if Ms not in Fset:
                raise Violation('ip_excludes_stable', 'the stable valid matching %r is not '
                                'feasible for the integer program' % (Ms,))
    # (ii) (iii)
    M = _lp.reported_matching(c)
    status = c.short['pulp_status']
    if S:
        if status != 'Optimal' or M is None:
            raise Violation('stable_exists_not_optimal', '%d stable matchings exist (e.g. %r) but '
                            'status is %r' % (len(S), S[0], status))
        if o.valid(M) and M not in Sset:
            raise Violation('reported_unstable', 'printed matching %r is blocked by %r'
                            % (M, o.blocking_pairs(M)[:3]))
    else:
        if status == 'Optimal':
            raise Violation('no_stable_but_optimal', 'no stable valid matching exists but status '
                            'is Optimal with matching %r' % (M,))
    # (iv)
    if S and c.criteria and c.criteria[0][0] in ('maxsize', 'minsize'):
        sizes = [o.size(X) for X in S]
        want = max(sizes) if c.criteria[0][0] == 'maxsize' else min(sizes)
        if c.short['stats'].get('size') != want:
            raise Violation('stable_size:' + c.criteria[0][0], 'printed size %r, %s size of a '
                            'stable matching is %d' % (c.short['stats'].get('size'),
                                                       c.criteria[0][0][:3], want))
        labels.append('size_criterion_first')
    for cl in ('3a', '3b_same', '3b_pref', '3c'):
        if any(u == frozenset([cl]) for u in unstable_clauses):
            labels.append('only_' + cl)
    if S and len(S) > 1 and len({o.size(X) for X in S}) > 1:
        labels.append('stable_sizes_differ')
    nontrivial = bool(S) and bool(unstable_clauses)
    if not S:
        labels.append('no_stable_matching')
    return Result(nontrivial, labels, {'solves': len(c.records),
                                       'stable_matchings': len(S),
                                       'unstable_valid_matchings': len(unstable_clauses)})


MANIFEST = {
    'technique': 'property-based testing; set equality between the LpProblem\'s exactly '
                 'enumerated feasible set and the stable matchings enumerated by definition',
    'text': 'For generated two-sided instances and option sets containing -stab, the projection '
            'of the first LpProblem\'s feasible set on the pair variables is compared, in both '
            'directions, with the set of valid matchings without a blocking pair computed by the '
            'reference model; the printed matching, the verdict and the size under '
            '-maxsize/-minsize are checked against the same set. The thorough tier adds an '
            'exhaustive sweep over every 2-student instance with <= 2 projects, <= 2 lecturers, '
            'capacities in {0,1,2} and all list/tie shapes. Small-scope exploration.',
    'note': 'Trusted: the blocking-pair definition as transcribed in refmodel.Oracle.blocking_pairs; '
            'enumerating back end (cross-checked against CBC in the thorough tier).',
}
MANIFEST['text'] += (' ' + '12% of the cases embed a tiny instance under sparse two- and three-digit ids (stable set enumerated on the tiny instance, real CBC on the big file) and 8% are large instances where the printed matching must be valid and unblocked.')
MANIFEST['text'] += (' ' + "6% of the cases are size-gadget instances (a tight lecturer ranks its last admissible applicants in one tie, some of whom have an outside option: stable matchings of different sizes, the tie visible or not among one project's applicants) under -maxsize / -minsize; a class has lecturer ties only; embedded instances use id maps beyond 256 per side and maps whose decimal spellings concatenate identically.")
