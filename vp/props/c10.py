"""C10 - the solver reads an instance file as the instance the file denotes.

Round trip: abstract instance -> text of the documented grammar (with drawn
whitespace noise, optional parameter block) -> Solver(args).model -> comparison
with the abstract instance; plus the 'Model instance information' block of
get_debug() and the lecturer cost of a one-sided run.
"""
from hypothesis import strategies as st

from .. import refmodel, restext, solverio, strategies
from ..common import Result, Violation, call_repo
from ..strategies import pct
from . import _lp

ID = 'C10'
LEVEL = 'exploration'
ENGINE = 'hypothesis, round trip through the real file reader'
RULE = ('case = (abstract instance up to 12/24 agents per side incl. ties at start/middle/end, '
        'empty second-side lists; whitespace noise; parameter block present or not; -na; '
        '-twopl on or off, off also on files that do contain second-side lists; 30% of the cases '
        'also solve once to obtain get_debug()); non-trivial = at least one tie group and noise '
        'in the separators or line ends; distinct = distinct case')
ASSUMPTIONS = [
    'only grammar-conformant text is generated: "<int>:" fields, whitespace-separated tokens, '
    '"(" glued to the first and ")" to the last member of a tie, no blank line inside the body',
    '-twopl is only given on files whose second-side lists are consistent (C12)',
]
SIZES = {'quick': dict(n1=12, n2=12, n3=6, lmax=8), 'thorough': dict(n1=24, n2=20, n3=12, lmax=12)}
SMALL = dict(n1=4, n2=3, n3=3, lmax=3)


def budget(tier):
    return 10000 if tier == 'quick' else 400000


@st.composite
def _cases(draw, tier):
    debug = pct(draw) < 30
    twopl_if_possible = pct(draw) < 70
    noise = draw(strategies.noises())
    inst = draw(strategies.instances(SMALL if debug else SIZES[tier]))
    twopl = inst['lprefs'] is not None and twopl_if_possible
    pc = draw(st.booleans())
    return {'inst': inst, 'noise': noise, 'twopl': twopl, 'pc': pc, 'debug': debug}


def strategy(tier):
    return _cases(tier)


def describe(case):
    return {'instance_file': refmodel.render(case['inst'], case['noise']),
            'argv': ['-f', '<file>', '-na', str(case['inst']['na'])]
            + ['-twopl'] * case['twopl'] + ['-pc'] * case['pc'], 'debug': case['debug']}


def compare_model(model, I, twopl):
    def eq(name, got, want):
        if list(got) != list(want) if isinstance(want, list) else got != want:
            raise Violation('model:' + name, 'Model.%s is %r, the file denotes %r'
                            % (name, got, want))
    eq('num_students', model.num_students, I['n1'])
    eq('num_projects', model.num_projects, I['n2'])
    eq('num_lecturers', model.num_lecturers, I['n3'])
    eq('proj_lower_quotas', model.proj_lower_quotas, I['plq'])
    eq('proj_upper_quotas', model.proj_upper_quotas, I['puq'])
    eq('lec_lower_quotas', model.lec_lower_quotas, I['llq'])
    eq('lec_targets', model.lec_targets, I['lt'])
    eq('lec_upper_quotas', model.lec_upper_quotas, I['luq'])
    eq('proj_lecturers', model.proj_lecturers, I['plec'])
    lrank = [refmodel.ranks_of(g) for g in I['lprefs']] if twopl else None
    if len(model.pairs) != I['n1']:
        raise Violation('model:pairs', '%d rows of pairs for %d students'
                        % (len(model.pairs), I['n1']))
    want_all = []
    for i in range(I['n1']):
        want = []
        for r, g in enumerate(I['prefs'][i]):
            for p in g:
                k = I['plec'][p - 1]
                want.append((i + 1, p, r + 1, k, lrank[k - 1][i + 1] if twopl else None))
        got = [(p.studentID, p.projectID, p.rank_student, p.lecturerID,
                getattr(p, 'rank_lecturer', None)) for p in model.pairs[i]]
        if got != want:
            raise Violation('model:pairs', 'student %d: pairs (student, project, rank, lecturer, '
                            'lecturer rank) %r, the file denotes %r' % (i + 1, got, want))
        for p in model.pairs[i]:
            if (p.student_index, p.project_index, p.lecturer_index) != \
                    (p.studentID - 1, p.projectID - 1, p.lecturerID - 1):
                raise Violation('model:indices', 'pair %s has inconsistent indices' % (p,))
        want_all.extend(want)
    # derived partitions
    def key(p):
        return (p.studentID, p.projectID)
    for name, n in (('project_lists', I['n2']), ('lecturer_lists', I['n3'])):
        if len(getattr(model, name)) != n:
            raise Violation('model:' + name, 'Model.%s has %d entries, the file denotes %d %s'
                            % (name, len(getattr(model, name)), n, name.split('_')[0] + 's'))
    for j in range(I['n2']):
        got = sorted(key(p) for p in model.project_lists[j])
        want = sorted((w[0], w[1]) for w in want_all if w[1] == j + 1)
        if got != want:
            raise Violation('model:project_lists', 'project %d: %r vs %r' % (j + 1, got, want))
    for k in range(I['n3']):
        got = sorted(key(p) for p in model.lecturer_lists[k])
        want = sorted((w[0], w[1]) for w in want_all if w[3] == k + 1)
        if got != want:
            raise Violation('model:lecturer_lists', 'lecturer %d: %r vs %r' % (k + 1, got, want))
    maxrank = max(w[2] for w in want_all)
    if len(model.rank_lists) != maxrank:
        raise Violation('model:rank_lists', '%d rank lists, max rank %d'
                        % (len(model.rank_lists), maxrank))
    for r in range(maxrank):
        got = sorted(key(p) for p in model.rank_lists[r])
        want = sorted((w[0], w[1]) for w in want_all if w[2] == r + 1)
        if got != want:
            raise Violation('model:rank_lists', 'rank %d: %r vs %r' % (r + 1, got, want))
    return want_all


def run_case(case):
    inst, noise = case['inst'], case['noise']
    I = refmodel.normalize(inst)
    text = refmodel.render(inst, noise)
    path = solverio.write_instance(text)
    argv = ['-f', path, '-na', str(inst['na'])] + ['-twopl'] * case['twopl'] + ['-pc'] * case['pc']
    solver = solverio.make_solver(argv)
    want_all = compare_model(solver.model, I, case['twopl'])
    labels = strategies.instance_labels(inst)
    labels = [l for l in labels if not l.startswith('cls=')]
    labels.append('twopl' if case['twopl'] else
                  ('second_lists_ignored' if inst['lprefs'] is not None else 'one_sided_file'))
    if noise.get('info'):
        labels.append('parameter_block')
    if case['debug']:
        from .. import refbackend
        with refbackend.Backend('cbc'):
            call_repo('solve()', solver.solve, msg=False, timeLimit=None, threads=None,
                      write=False)
        dbg = restext.parse_debug(call_repo('get_debug()', solver.get_debug))
        flat = [t for row in dbg['pairs'] for t in row]
        if flat != want_all or [len(r) for r in dbg['pairs'] if r] != \
                [sum(len(g) for g in pl) for pl in I['prefs'] if pl]:
            raise Violation('debug_block', 'Model instance information shows %r, the file '
                            'denotes %r' % (dbg['pairs'], want_all))
        res = restext.parse_results(call_repo('get_results()', solver.get_results))
        if res['pulp_status'] == 'Optimal' and not case['twopl']:
            if res['stats']['cost'][1] != 0 or res['stats']['cost_sq'][1] != 0:
                raise Violation('one_sided_lecturer_cost', 'no -twopl but lecturer cost %r / %r'
                                % (res['stats']['cost'], res['stats']['cost_sq']))
        # "the instance the solver works on has ... the same quotas": the solve is the work.
        # With no further option the run is Optimal exactly when the instance the file denotes
        # has a valid matching, and the matching respects the quotas written in the file
        o = refmodel.Oracle(inst, case['twopl'], case['pc'])
        has_valid = any(o.valid(M) for M in o.assignments())
        if res['pulp_status'] in ('Optimal', 'Infeasible') and \
                (res['pulp_status'] == 'Optimal') != has_valid:
            raise Violation('solved_instance_differs', 'the instance the file denotes has %s valid '
                            'matching, the solver reports %s' % ('a' if has_valid else 'no',
                                                                 res['pulp_status']))
        if res['pulp_status'] == 'Optimal' and res['matching'] is not None:
            why = o.why_invalid(res['matching'])
            if why:
                raise Violation('solved_instance_differs', 'matching %r does not fit the quotas '
                                'written in the file: %s' % (res['matching'], why))
        if res['pulp_status'] == 'Optimal':
            M = res['matching']
            if o.acceptable(M):
                st_ = o.stats(M)
                for k in ('size', 'cost', 'profile', 'max_lec_abs_diff'):
                    if list(res['stats'][k]) != list(st_[k]) if isinstance(st_[k], (list, tuple)) \
                            else res['stats'][k] != st_[k]:
                        raise Violation('statistics_on_instance', '%s printed %r, the instance '
                                        'the file denotes gives %r for matching %r'
                                        % (k, res['stats'][k], st_[k], M))
        labels.append('debug_block_checked')
    has_tie = any(len(g) > 1 for pl in I['prefs'] for g in pl) or \
        (inst['lprefs'] is not None and any(len(g) > 1 for pl in inst['lprefs'] for g in pl))
    noisy = any(s != ' ' for s in noise['seps']) or any(noise['lead']) or any(noise['trail'])
    if inst['lprefs'] is not None and any(len(pl) == 0 for pl in inst['lprefs']):
        labels.append('empty_second_side_list')
    return Result(has_tie and noisy, labels)


MANIFEST = {
    'technique': 'property-based round trip (abstract instance -> documented text -> real '
                 'reader -> Model) against the abstract instance',
    'text': 'Generated abstract instances are written in the documented grammar with drawn '
            'whitespace noise and optional parameter block, loaded through Solver(args) with '
            '-na 2/3 and with/without -twopl, and every documented Model attribute (counts, '
            'quotas, targets, project-lecturer map, pairs with dense student and lecturer ranks, '
            'derived project/lecturer/rank lists) plus the debug block and the lecturer cost of '
            'one-sided runs are compared with the abstract instance. Exploration over files of '
            'up to 12 agents per side.',
    'note': 'Trusted: the grammar of DESIGN.md section 1 (text outside it is never generated); '
            'the writer refmodel.render.',
}
MANIFEST['text'] += (' ' + 'Whitespace noise includes every ASCII character str.split() treats as blank (form feed, vertical tab, FS/GS/RS/US) and CRLF line ends.')
MANIFEST['text'] += (' ' + 'The 30% of cases that are solved also require the verdict and the matching to fit the instance the file denotes (Optimal exactly when it has a valid matching; quotas of the file respected).')
