"""C16 - criteria run in position order; invalid solver option sets are refused.

kind "parser": every criterion absent or at a position in -2..12, extras, flag
permutation, -stab with/without -twopl, against a NON-EXISTENT file name, so
that refusing before reading the instance is observable.
kind "solved": a valid option set on a real instance; the '- optimisation:'
lines must be the position order, cut after the criterion whose solve first
fails to reach Optimal (a persistent fault is injected at a drawn solve).
"""
import contextlib
import io
import os

from hypothesis import strategies as st

from .. import faults, restext, solverio, strategies
from ..common import Result, Violation, call_repo
from ..strategies import pct, uni
from . import _lp
from .c04 import line_to_crit

ID = 'C16'
LEVEL = 'exploration'
ENGINE = 'hypothesis over position assignments / flag permutations; fault injector for the cut-off'
RULE = ('kind parser: each of the nine criteria absent or at a position in -2..12 (half of the '
        'cases constrained to be valid), admissible extras, drawn flag permutation, -stab with or '
        'without -twopl, non-existent file; kind solved: valid set, real instance, persistent '
        'fault at a drawn solve. non-trivial = (valid set with >= 2 criteria whose flag order '
        'differs from position order) or (invalid set with exactly one refusal reason); distinct '
        '= distinct case')
ASSUMPTIONS = [
    'refusal = SystemExit(2) from Solver(args) before the (non-existent) file is opened; an '
    'accepted set therefore ends in FileNotFoundError, which is the expected outcome',
    'admissible extras only: -gen/-gre at most one, cost criteria at most two extra integers',
]
ENUM = {'maxsize': 'MAXSIZE', 'minsize': 'MINSIZE', 'gen': 'GENEROUS', 'gre': 'GREEDY',
        'mincost': 'MINCOST', 'minsqcost': 'MINSQCOST', 'lmb': 'LOADMAXBAL', 'lsb': 'LOADSUMBAL',
        'mincostlsb': 'MINCOSTLSB'}
LIST_TYPED = {'gen', 'gre', 'mincost', 'minsqcost', 'mincostlsb'}
POSITIONS = list(range(-2, 13))


def budget(tier):
    return 21500 if tier == 'quick' else 500000


@st.composite
def _cases(draw, tier):
    if pct(draw) < 16:
        salt = draw(strategies.salts)
        fault_at = draw(st.sampled_from([None, None, None, None, None, 0, 1, 2, 3, 4, 6]))
        inst = draw(strategies.instances(strategies.SIZES['quick'],
                                         min_len=draw(st.sampled_from([1, 2, 3]))))
        if fault_at is None and draw(st.booleans()):
            # several criteria that take extra arguments, some with and some without them
            opts = draw(strategies.option_sets(
                inst, min_crit=2, max_crit=4,
                names=['mincost', 'minsqcost', 'mincostlsb', 'maxsize', 'gre', 'gen']))
        else:
            opts = draw(strategies.option_sets(inst, min_crit=1, max_crit=5))
        if fault_at is None and pct(draw) < 70:
            strategies.maxsize_first(draw, opts)
        if fault_at is None and inst.get('lprefs') is not None and pct(draw) < 70:
            opts = draw(strategies.cost_focus_options(inst))
        case = {'kind': 'solved', 'inst': inst, 'opts': opts, 'salt': salt,
                'fault_at': fault_at,
                'fault_kind': draw(st.sampled_from(['Infeasible', 'Undefined', 'NotSolved'])),
                'fault_persistent': draw(st.booleans()),
                'choices': draw(strategies.choice_lists)}
        if fault_at is None:
            _lp.attach_decoy(case, _lp.draw_decoy(draw, inst, 30))
        else:
            # what else happens to the object: a retry without failure afterwards; another
            # Solver (same file, other criteria) solved between this solve and its reading
            case['resolve'] = pct(draw) < 50
            if pct(draw) < 40:
                case['bystander'] = {'inst': None, 'opts': draw(strategies.option_sets(
                    inst, min_crit=1, max_crit=3, twopl=opts['twopl'], pc=opts['pc']))}
        return case
    want_valid = draw(st.booleans())
    stab = pct(draw) < 25
    bf = pct(draw) < 15
    twopl = pct(draw) < (85 if (stab and want_valid) else 50)
    if want_valid and stab:
        twopl = True
    crit = []
    used = set()
    for name in strategies.CRIT_NAMES:
        if pct(draw) < 45:
            continue
        if want_valid:
            free = [p for p in range(1, 10) if p not in used]
            pos = draw(st.sampled_from(free))
        else:
            pos = draw(st.sampled_from(POSITIONS + list(range(1, 10))))
        used.add(pos)
        extras = draw(strategies.criterion_args(name, 3)) if name in LIST_TYPED else []
        crit.append([name, pos, extras])
    flags = ['twopl'] * twopl + ['stab'] * stab + ['f', 'na'] + \
        ['crit%d' % i for i in range(len(crit))]
    order = list(draw(st.permutations(flags)))
    return {'kind': 'parser', 'twopl': twopl, 'stab': stab, 'crit': crit, 'order': order,
            'na': draw(st.sampled_from([2, 3])), 'bf': bf}


def strategy(tier):
    return _cases(tier)


def describe(case):
    if case['kind'] == 'solved':
        d = solverio.describe_case(case)
        d['fault'] = [case['fault_at'], case['fault_kind']]
        return d
    return {'kind': 'parser', 'argv': _argv(case, '<missing file>')}


def _argv(case, fname):
    opts = {'twopl': case['twopl'], 'stab': case['stab'], 'pc': False, 'crit': case['crit'],
            'order': case['order']}
    return strategies.build_argv(opts, fname, case['na'], bf=case.get('bf', False))


def refusal_reasons(case):
    pos = [p for n, p, e in case['crit']]
    r = []
    if any(p < 1 or p > 9 for p in pos):
        r.append('range')
    if len(set(pos)) != len(pos):
        r.append('duplicate')
    if case['stab'] and not case['twopl']:
        r.append('stab_without_twopl')
    return r


def run_parser(case):
    from matchingproblems import solver as solver_pkg
    from matchingproblems.solver.options_parser import Options_parser
    from matchingproblems.solver import enums
    fname = os.path.join(solverio.workdir(), 'no-such-dir', 'no-such-file.txt')
    argv = _argv(case, fname)
    reasons = refusal_reasons(case)
    err = io.StringIO()
    outcome = None
    try:
        with contextlib.redirect_stderr(err):
            try:
                solver_pkg.Solver(argv)
                outcome = 'constructed'
            except SystemExit as e:
                outcome = 'exit:%r' % (e.code,)
            except FileNotFoundError:
                outcome = 'file_not_found'
    except Exception as e:
        raise Violation('unexpected_exception', 'Solver(%r) raised %s: %s'
                        % (argv, type(e).__name__, e), exc=(type(e).__name__, 'Solver'))
    labels = ['kind=parser', 'ncrit=%d' % len(case['crit'])] + ['-bf'] * bool(case.get('bf'))
    if reasons:
        labels += ['refuse:' + r for r in reasons]
        if outcome != 'exit:2':
            raise Violation('not_refused:' + '+'.join(reasons), 'option set %r must be refused '
                            '(%s) before the instance is read, but the outcome was %s'
                            % (argv, ', '.join(reasons), outcome))
        if 'usage:' not in err.getvalue():
            raise Violation('refusal_without_usage', 'refused %r without a usage message' % argv)
        return Result(len(reasons) == 1, labels)
    if outcome != 'file_not_found':
        raise Violation('valid_set_not_accepted', 'admissible option set %r: outcome %s (%s)'
                        % (argv, outcome, err.getvalue().strip()[-160:]))
    # parsed form: sorted by position, extras kept with their criterion
    op = Options_parser()
    with contextlib.redirect_stderr(err):
        try:
            call_repo('Options_parser.parse', op.parse, argv)
        except SystemExit:
            raise Violation('valid_set_not_accepted', 'Options_parser refuses %r' % argv)
    want = []
    for name, pos, extras in sorted(case['crit'], key=lambda c: c[1]):
        want.append((ENUM[name], list(extras) if name in LIST_TYPED else None))
    got = [(o.name, (list(a) if a is not None else None)) for o, a in op.optimisation_options]
    if got != want:
        raise Violation('parsed_order', 'argv %r parsed to %r, expected position order %r'
                        % (argv, got, want))
    if op.instance_options[enums.Instance_options.TWOPL] != case['twopl'] or \
            op.extra_constraints[enums.Extra_constraints.STAB] != case['stab'] or \
            op.instance_options[enums.Instance_options.NUMAGENTS] != case['na']:
        raise Violation('parsed_flags', 'argv %r: flags parsed as %r %r'
                        % (argv, op.instance_options, op.extra_constraints))
    flag_seq = [int(f[4:]) for f in case['order'] if f.startswith('crit')]
    by_pos = [i for i, c in sorted(enumerate(case['crit']), key=lambda x: x[1][1])]
    nt = len(case['crit']) >= 2 and flag_seq != by_pos
    if nt:
        labels.append('flag_order!=position_order')
    return Result(nt, labels)


def solves_of(name, extras, maxrank):
    if name == 'gen':
        c = extras[0] if extras else 1
        return len(range(maxrank, max(0, c - 1), -1))
    if name == 'gre':
        c = extras[0] if extras else maxrank
        return len(range(1, min(c, maxrank) + 1))
    return 1


def run_solved(case):
    inst, opts = case['inst'], case['opts']
    criteria = strategies.ordered_criteria(opts)
    if case['fault_at'] is None:
        # no injected failure: besides the order of the lines, every criterion must have been
        # run with its own extra arguments - observable as the lexicographic optimum
        try:
            c = _lp.run_lp(case, want_long=False)
        except Violation as v:
            if _lp.owns_exceptions(v):
                return Result(False, ['kind=solved', 'skipped:exception'])
            raise
        from .c03 import check_optimum
        from .c04 import check_lines
        check_lines(c, criteria, 'run')
        try:
            check_optimum(c, criteria)
        except Violation as v:
            raise Violation('extras_not_kept:' + v.facet, v.detail)
        return Result(len(criteria) >= 2, ['kind=solved', 'ncrit=%d' % len(criteria), 'complete',
                                           'optimum_checked'])
    plan = []
    if case['fault_at'] is not None:
        plan = [{'at': case['fault_at'], 'kind': case['fault_kind'],
                 'persistent': case.get('fault_persistent', True),
                 'policy': 'zero'}]
    try:
        fr = faults.FaultRun(inst, opts, plan, choices=case['choices'], salt=case['salt'],
                             bystander=case.get('bystander'),
                             resolve=bool(case.get('resolve'))).run()
    except Violation as v:
        if _lp.owns_exceptions(v):
            return Result(False, ['kind=solved', 'skipped:exception'])
        raise
    recs = fr.backend.records
    b = next((r for r in recs if r.status != 'Optimal'), None)
    maxrank = strategies.max_rank(inst)
    # expected prefix: all criteria up to and including the one containing solve b
    want = [n for n, a in criteria]
    if b is not None:
        k, acc = 0, 0
        for n, a in criteria:
            acc += solves_of(n, a, maxrank)
            k += 1
            if b.index < acc:
                break
        want = want[:k]
    for which, text in (('short', fr.short), ('long', fr.long)):
        parsed = restext.parse_results(text)
        got = [line_to_crit(l) for l in parsed['optimisations']]
        if got != want:
            raise Violation('reported_order', '%s results list optimisations %r; criteria in '
                            'position order %r, first unproven solve: %s -> expected %r'
                            % (which, parsed['optimisations'], [n for n, a in criteria],
                               ('solve %d' % (b.index + 1)) if b else 'none', want))
    labels = ['kind=solved', 'ncrit=%d' % len(criteria), 'cut' if b is not None else 'complete']
    if case.get('bystander'):
        labels.append('bystander_solver')
    if fr.short2 is not None:
        # the retry performs and reports all criteria again (up to its own first unproven solve)
        b2 = next((r for r in fr.backend2.records if r.status != 'Optimal'), None)
        want2 = [n for n, a in criteria]
        if b2 is not None:
            k, acc = 0, 0
            for n, a in criteria:
                acc += solves_of(n, a, maxrank)
                k += 1
                if b2.index < acc:
                    break
            want2 = want2[:k]
        got2 = [line_to_crit(l) for l in restext.parse_results(fr.short2)['optimisations']]
        if got2 != want2:
            raise Violation('reported_order_after_retry', 'second solve() of the same Solver (no '
                            'failure this time) lists optimisations %r, expected %r (the first '
                            'solve was cut at %s)' % (
                                got2, want2, ('solve %d' % (b.index + 1)) if b else 'no solve'))
        labels.append('retry_after_cut' if b is not None else 'retry')
    flag_seq = [int(f[4:]) for f in opts['order'] if f.startswith('crit')]
    by_pos = [i for i, c in sorted(enumerate(opts['crit']), key=lambda x: x[1][1])]
    return Result(len(criteria) >= 2 and flag_seq != by_pos, labels)


def run_case(case):
    return run_parser(case) if case['kind'] == 'parser' else run_solved(case)


MANIFEST = {
    'technique': 'property-based testing of the option parser (oracle: sort by position / three '
                 'refusal rules) plus solved runs with injected solver failures',
    'text': 'Generated assignments of positions (absent or -2..12) to the nine criteria, extras, '
            'flag permutations and -stab/-twopl combinations are given to Solver(args) with a '
            'non-existent file: invalid sets must exit with status 2 before the file is touched, '
            'valid ones must reach the file and parse to the position-sorted list with their own '
            'extras. 7% of the cases solve a real instance (with a persistent solver failure '
            'injected at a drawn solve) and compare the "- optimisation:" lines with the '
            'expected prefix. Exploration.',
    'note': 'Trusted: the three refusal rules as stated in the property; fault injector of C14.',
}
MANIFEST['text'] += (' ' + '15% of the parser cases carry -bf; solved cases inject transient or persistent failures, and those without a failure also check the lexicographic optimum (extras kept with their criterion).')
MANIFEST['text'] += (' ' + 'Half of the solved cases with a failure solve the same object again without failure and require the full list of criteria; 40% have a bystander Solver with other criteria on the same file solved before the results are read.')
MANIFEST['text'] += (' ' + '16% of the cases are solved; those without an injected failure use cost-focused option sets (explicit 0 multipliers, one or two extras) and must reach the lexicographic optimum with exactly those extras.')
