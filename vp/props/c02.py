"""C02 - the solver reports Optimal exactly when a feasible matching exists; never errors.

Oracle: the feasible set {valid (and stable under -stab) matchings} computed by
enumeration in the reference model.
"""
from hypothesis import strategies as st

from .. import solverio, strategies
from ..common import Result, Violation
from ..strategies import pct
from . import _lp

ID = 'C02'
LEVEL = 'exploration'
ENGINE = 'hypothesis + real CBC (primary) + exact enumerating MILP back end'
RULE = ('case = (instance, admissible option set with 0..9 criteria incl. multipliers 0..3 and '
        'cut-offs, flag order, back end CBC or enumerating); the mix is tilted to shapes where '
        'auxiliary-variable bounds bite (more lecturers than students, targets = upper quota, '
        'lecturer multipliers, all nine criteria) and ~25%% infeasible instances; non-trivial = '
        'infeasible instance, or a criterion with an auxiliary cost/load objective; distinct = '
        'distinct case')
ASSUMPTIONS = [
    'admissible option sets only: positions 1..9 distinct, -gen cut-off within 1..max rank, '
    '-gre cut-off >= 1, non-negative multipliers, -stab only with -twopl, -twopl only on '
    'two-sided files',
    'small scope: <= 4/5 students, <= 3/4 projects, <= 4/5 lecturers',
]
AUX = {'mincost', 'minsqcost', 'lmb', 'lsb', 'mincostlsb'}


def budget(tier):
    return 10000 if tier == 'quick' else 300000


@st.composite
def _cases(draw, tier):
    mode = 'cbc' if pct(draw) < 40 else ('both' if tier == 'thorough' and pct(draw) < 15
                                         else 'eb')
    salt = draw(strategies.salts)
    shape = draw(st.sampled_from(['mix', 'mix', 'high_targets', 'many_criteria', 'lecturer_mult',
                                  'tied_quota_stab']))
    kw = {}
    if shape == 'high_targets':
        kw['cls'] = draw(st.sampled_from(['more_lecturers', 'generic', 'shared_tight']))
    if shape == 'tied_quota_stab':
        # ties of three and more x lower quotas x stability: feasibility hangs on one student
        # sitting on a late member of a tie
        kw = dict(cls='tied_lower_quotas', two_sided=True, min_len=3)
    inst = draw(strategies.instances(strategies.SIZES[tier], **kw))
    if shape == 'high_targets' and inst['na'] == 3:
        inst['lt'] = list(inst['luq'])
    if shape == 'many_criteria':
        opts = draw(strategies.option_sets(inst, min_crit=5, max_crit=9))
    elif shape == 'lecturer_mult':
        opts = draw(strategies.option_sets(
            inst, min_crit=1, max_crit=3, twopl=inst['lprefs'] is not None,
            names=['mincost', 'minsqcost', 'mincostlsb', 'maxsize', 'lsb']))
        for c in opts['crit']:
            if c[0] in ('mincost', 'minsqcost', 'mincostlsb') and len(c[2]) < 2:
                c[2] = [draw(st.sampled_from([0, 1, 2])), draw(st.sampled_from([1, 2, 3]))]
    elif shape == 'tied_quota_stab':
        opts = draw(strategies.option_sets(inst, max_crit=2, twopl=True, stab=True))
    else:
        opts = draw(strategies.option_sets(inst, max_crit=4))
    choices = draw(strategies.choice_lists) if mode != 'cbc' else []
    decoy = _lp.draw_decoy(draw, inst)
    _ret = {'inst': inst, 'opts': opts, 'choices': choices, 'mode': mode, 'salt': salt}
    return _lp.attach_decoy(_ret, decoy)


def strategy(tier):
    return _cases(tier)


describe = solverio.describe_case


def run_case(case):
    c = _lp.run_lp(case)          # any exception escaping the repository is a violation here
    try:
        c.run.results('default')
    except Violation:
        raise
    feas = _lp.feasible_set(c)
    labels = _lp.base_labels(c, case)
    labels.append('feasible' if feas else 'infeasible')
    for which, parsed in (('short', c.short), ('long', c.long)):
        if parsed['timeout'] is not None:
            raise Violation('timeout_without_limit', '%s text shows Timeout with no time limit'
                            % which)
        status = parsed['pulp_status']
        if feas:
            if status != 'Optimal':
                last = parsed['optimisations'][-1] if parsed['optimisations'] else 'none'
                raise Violation('feasible_not_optimal:' + last.split(' up to')[0],
                                '%d feasible matchings exist (e.g. %r) but pulp_status is %r; '
                                'optimisations: %r' % (len(feas), feas[0], status,
                                                       parsed['optimisations']))
            if parsed['matching'] is None:
                raise Violation('optimal_without_matching', 'status Optimal but no matching line')
        else:
            if status != 'Infeasible':
                raise Violation('infeasible_not_reported',
                                'no feasible matching exists but pulp_status is %r' % status)
            if parsed['matching'] is not None or parsed['stats']:
                raise Violation('matching_when_infeasible',
                                'no feasible matching exists but the text shows %r'
                                % (parsed['matching'],))
    # IP level
    recs = [r for r in c.records if r.nF is not None]
    if recs:
        if (recs[0].nF > 0) != bool(feas):
            raise Violation('ip_feasibility',
                            'first LpProblem has %d feasible pair vectors, the definition %d'
                            % (recs[0].nF, len(feas)))
        if feas:
            for r in recs:
                if r.status != 'Optimal':
                    raise Violation('criterion_made_infeasible',
                                    'solve %d of the run is %s although the instance is feasible'
                                    % (r.index, r.status))
    names = {n for n, p, e in c.opts['crit']}
    return Result((not feas) or bool(names & AUX), labels, {'solves': len(c.records)})


MANIFEST = {
    'technique': 'property-based testing, differential against a definition-level enumeration '
                 'oracle, real CBC and exact enumerating back end',
    'text': 'Generated (instance, option set) cases run through the shipped pipeline with the '
            'real CBC solver (40%) and through the exact enumerating back end (60%); the verdict '
            '(Optimal + matching / Infeasible without matching), the absence of any exception '
            'and the emptiness of the first LpProblem\'s feasible set are compared with the '
            'feasible set enumerated by the reference model. Exploration within a small scope.',
    'note': 'Trusted: reference model, CBC binary shipped with PuLP 2.9.0, the enumerating back '
            'end (thorough tier cross-checks it against CBC on every solve of 15% of the cases; '
            'a disagreement is reported as a harness error, not a violation).',
}
MANIFEST['text'] += (' ' + 'Cases may carry a second (decoy) Solver object, a sibling instance or earlier solve() calls; a shape combines ties of three or more, lower quotas and -stab.')
