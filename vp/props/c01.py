"""C01 - the reported matching is always a valid matching of the input instance.

Oracle: definition-level validity (refmodel.Oracle.valid) applied to
 (a) the matching printed by the short and the long result text,
 (b) every element of every optimal set the repository's LpProblem admitted
     during the run (what any exact MILP solver may return),
 (c) the feasible set of the first solve (all user constraints, no frozen optimum).
"""
from .. import solverio
from ..common import Result, Violation
from . import _lp

ID = 'C01'
LEVEL = 'exploration'
ENGINE = 'hypothesis + exact enumerating MILP back end (adversarial choice) + CBC sample'
RULE = ('case = (well-formed instance from the case mix, admissible option set with drawn '
        'flag order, choice list steering which optimal solution each solve returns, back end); '
        'non-trivial = the instance has at least one valid matching and at least one invalid '
        'assignment (a quota or closure really bites); distinct = distinct (instance, options, '
        'choices)')
ASSUMPTIONS = [
    'instances up to 4 (quick) / 5 (thorough) students, 3/4 projects, 4/5 lecturers, lists <= 3/4',
    'the enumerating back end returns exact 0.0/1.0 values; floating point noise of a real '
    'solver (0.9999999) is not generated',
    'PuLP 2.9.0 semantics of LpProblem/LpVariable (the LpProblem object itself is what is enumerated)',
]


def budget(tier):
    return 9000 if tier == 'quick' else 300000


def strategy(tier):
    return _lp.lp_cases(tier, cbc_pct=9, large_pct=8)


describe = solverio.describe_case


def run_case(case):
    try:
        c = _lp.run_lp(case)
    except Violation as v:
        if _lp.owns_exceptions(v):   # "never errors" is C02's statement, not C01's
            return Result(False, ['skipped:' + v.facet.split(':')[0]])
        raise
    o = c.oracle
    labels = _lp.base_labels(c, case)
    M = _lp.reported_matching(c)
    if c.short['pulp_status'] == 'Optimal' and c.short['timeout'] is None:
        if M is None:
            raise Violation('no_matching', 'status Optimal but no matching line')
        why = o.why_invalid(M)
        if why:
            raise Violation('printed_invalid', 'printed matching %r is not valid: %s' % (M, why))
    # (b) and (c): what the integer program admits
    nsol = 0
    for rec in c.records:
        if rec.O is None:
            continue
        for Mo in rec.matchings('O', o.n1):
            nsol += 1
            if isinstance(Mo, str):
                raise Violation('ip_optimal_invalid', 'solve %d admits an optimal solution that '
                                'is not an assignment: %s' % (rec.index, Mo))
            why = o.why_invalid(Mo)
            if why:
                raise Violation('ip_optimal_invalid', 'solve %d admits optimal solution %r: %s'
                                % (rec.index, Mo, why))
    if c.records and c.records[0].F is not None:
        for Mf in c.records[0].matchings('F', o.n1):
            nsol += 1
            if isinstance(Mf, str):
                raise Violation('ip_feasible_invalid', 'the integer program admits %s' % Mf)
            why = o.why_invalid(Mf)
            if why:
                raise Violation('ip_feasible_invalid', 'the integer program admits %r: %s'
                                % (Mf, why))
    if case.get('large'):
        return Result(M is not None and any(M), labels + ['large'], {'solves': len(c.records)})
    nvalid = len(_lp.valid_set(c))
    total = 1
    for r in o.srank:
        total *= len(r) + 1
    return Result(nvalid >= 1 and nvalid < total, labels, {'ip_solutions_checked': nsol,
                                                          'solves': len(c.records)})


MANIFEST = {
    'technique': 'property-based testing with an exact enumerating MILP back end as oracle '
                 'and adversarial solution choice',
    'text': 'Generated (instance, option set, solver tie-break) cases, optionally with a second '
            'Solver object or earlier solve() calls in the same process; the matching printed in '
            'both result formats, every optimal solution admitted by every LpProblem of the run '
            'and the whole feasible set of the first LpProblem are compared with the definition '
            'of a valid matching computed by an independent reference model; 8% of the cases are '
            'large or sparse-id-embedded instances (two- and three-digit ids) solved by real CBC. '
            'Small-scope exploration (<= 5 students for the enumerated part): absence of '
            'violations is evidence, not proof.',
    'note': 'Trusted: the reference model (vp/refmodel.py), the enumerating back end '
            '(cross-checked against CBC in C02/C03 thorough runs), PuLP object semantics. '
            'Floating-point artefacts of real solvers are not generated.',
}
