"""C17 - popularity skew is linear with the requested ratio.

Domain: n in 1..300 (quick) / 1..2000 (thorough), skew s > 0 given as float or
int; an exhaustive grid n in 1..40 x 60 skews plus drawn cases.
Oracle (tolerance 1e-9 relative, stated): weights positive, sum to one,
arithmetic progression, last/first == s; n == 1 -> [1.0]; s >= 1 -> non-decreasing;
s <= 1 -> non-increasing; and the closed form w_i = (1 + i(s-1)/(n-1)) / (n(1+s)/2).
"""
import math

from hypothesis import strategies as st

from ..common import Result, Violation, call_repo

ID = 'C17'
LEVEL = 'exploration'
ENGINE = 'hypothesis + exhaustive grid'
RULE = ('kind sampling (1%): first-position share of the more popular half of the agents in '
        '3000 generated lists against the linear popularity; kind pipeline (5%): a Generator(args) run whose weight vectors handed to '
        'numpy.random.choice are captured and checked; otherwise cases are (n, s, numeric type of s); grid n=1..40 x 60 skews enumerated, the '
        'rest drawn (n up to 300/2000, s log-uniform in [1e-6,1e6], near-1 values, '
        'integers); non-trivial = n >= 3 and s != 1; distinct = distinct (n, s, type)')
ASSUMPTIONS = [
    'floating point tolerance 1e-9 relative on every comparison',
    '"s times as likely to be drawn first" is checked on the weights handed to '
    'numpy.random.choice(p=...) and, statistically, on who comes first in 3000 generated lists '
    '(kind sampling: tolerance 0.07 on a share whose standard deviation is 0.009; false-alarm '
    'probability < 1e-13 per case)',
]
EXHAUSTIVE = {'quick': False, 'thorough': False}
TOL = 1e-9

GRID_SKEWS = ([1, 2, 3, 5, 10, 100, 1000, 10 ** 6, 1.0, 1.5, 2.5, 7.25, 0.5, 0.25, 0.1,
               0.001, 1e-6, 0.999999, 1.000001, 0.9, 1.1, 50.0, 49.99, 12345.678]
              + [10 ** (k / 6.0) for k in range(-18, 18)])


def budget(tier):
    return 20000 if tier == 'quick' else 500000


def exhaustive(tier):
    for n in range(1, 41):
        for s in GRID_SKEWS:
            yield {'n': n, 's': s, 'typ': 'int' if isinstance(s, int) else 'float'}


@st.composite
def _case(draw, nmax):
    n = draw(st.one_of(st.integers(1, 12), st.integers(1, nmax)))
    kind = draw(st.sampled_from(['log', 'log', 'int', 'near1', 'small', 'one']))
    if kind == 'log':
        s = 10.0 ** draw(st.floats(-6, 6, allow_nan=False))
    elif kind == 'int':
        s = draw(st.one_of(st.integers(1, 20), st.integers(1, 10 ** 6)))
    elif kind == 'near1':
        s = 1.0 + draw(st.sampled_from([-1, 1])) * 10.0 ** draw(st.floats(-12, -1))
    elif kind == 'small':
        s = 10.0 ** draw(st.floats(-6, -2))
    else:
        s = draw(st.sampled_from([1, 1.0]))
    return {'n': n, 's': s, 'typ': 'int' if isinstance(s, int) else 'float'}


@st.composite
def _mixed(draw, nmax):
    k = draw(st.sampled_from(range(1000)))
    if k >= 985:
        # thousands of agents (n beyond any bound a fast path might switch at)
        n = draw(st.sampled_from([1000, 1024, 2000, 2001, 2500, 4097, 6000, 10001]))
        s = draw(st.sampled_from([2, 5, 0.5, 7.25, 1.000001, 1000.0, 1, 1e-3]))
        return {'n': n, 's': s, 'typ': 'int' if isinstance(s, int) else 'float'}
    if k >= 975:
        # the property itself, statistically: who is drawn FIRST (see run_sampling)
        big = draw(st.sampled_from([False, False, True]))
        mp = draw(st.sampled_from(['ha', 'hr', 'spa']))
        twopl = True if mp == 'hr' else (draw(st.booleans()) if mp == 'spa' else False)
        if draw(st.sampled_from(range(4))) == 0:
            # lists of ONE entry: that entry is the first draw
            return {'kind': 'sampling', 'n2': draw(st.sampled_from([2, 3, 4])), 'L': 1,
                    'n1': 6000, 's': draw(st.sampled_from([3.0, 5.0, 9.0, 0.2])), 'mp': mp,
                    'twopl': twopl and mp != 'hr', 'pmax': draw(st.sampled_from([1, 1, 2])),
                    'seed': draw(st.sampled_from(range(10000)))}
        return {'kind': 'sampling', 'n2': 1200 if big else draw(st.sampled_from([20, 40])),
                'L': 60 if big else draw(st.sampled_from([10, 20])), 'n1': 3000,
                's': draw(st.sampled_from([3.0, 5.0, 9.0, 0.2])),
                'mp': mp, 'twopl': twopl,
                'seed': draw(st.sampled_from(range(10000)))}
    if k >= 965:
        # a big pool of rankable agents and short lists, through Generator(args)
        n2 = draw(st.sampled_from([1000, 1200, 2001, 2600]))
        mp = draw(st.sampled_from(['ha', 'hr', 'spa']))
        v = {'mp': mp, 'numinst': 1, 'n1': draw(st.sampled_from([1, 3, 6])), 'n2': n2, 'pmin': 1,
             'pmax': draw(st.sampled_from([1, 5, 50, 60, 61])), 'uq': n2,
             'skew': draw(st.sampled_from([2.0, 4.0, 7.5, 0.5])),
             'seed': draw(st.sampled_from(range(10000)))}
        if mp == 'hr':
            v['twopl'] = True
        if mp == 'spa':
            v.update(n3=draw(st.sampled_from([1, 7])), luq=v['n1'] + 5)
        return {'kind': 'pipeline', 'v': v, 'prior_skew': None}
    if k < 40:
        # the weights actually handed to numpy.random.choice during a generator run
        from .. import genargs
        v = draw(genargs.legal_vectors(nmax=(6, 12, 4), numinst_max=1))
        kind = draw(st.sampled_from(['given', 'given', 'given', 'default']))
        if kind == 'given':
            v['skew'] = draw(st.sampled_from([1.0, 2.0, 3.5, 10.0, 0.5, 0.1, 25.0, 1000.0]))
        else:
            v.pop('skew', None)
        # an earlier run in the same process with another skew (weights must not be remembered)
        prior = draw(st.sampled_from([None, 1.0, 4.0, 0.25]))
        return {'kind': 'pipeline', 'v': v, 'prior_skew': prior}
    return draw(_case(nmax))


def strategy(tier):
    return _mixed(300 if tier == 'quick' else 2000)


def check_weights(w, n, s, where):
    """The laws of the property on a weight vector."""
    try:
        w = [float(x) for x in w]
    except Exception as e:
        raise Violation('shape', '%s: not a sequence of numbers: %r (%s)' % (where, w, e))
    if len(w) != n:
        raise Violation('shape', '%s: n=%d but %d weights' % (where, n, len(w)))
    if any((not math.isfinite(x)) or x <= 0 for x in w):
        raise Violation('positive', '%s: n=%d s=%r weights not all positive/finite: %r'
                        % (where, n, s, w[:5]))
    tot = math.fsum(w)
    if abs(tot - 1.0) > TOL:
        raise Violation('sum', '%s: n=%d s=%r weights sum to %r' % (where, n, s, tot))
    if n == 1:
        if abs(w[0] - 1.0) > TOL:
            raise Violation('single', '%s: single agent gets weight %r' % (where, w[0]))
        return w
    wmax = max(w)
    ratio = w[-1] / w[0]
    if abs(ratio - s) > TOL * max(1.0, abs(s)) * 10:
        raise Violation('ratio', '%s: n=%d s=%r last/first=%r' % (where, n, s, ratio))
    d = (w[-1] - w[0]) / (n - 1)
    for i in range(n):
        if abs(w[i] - (w[0] + i * d)) > TOL * wmax:
            raise Violation('arithmetic', '%s: n=%d s=%r: w[%d]=%r is off the line through the '
                            'end points (%r)' % (where, n, s, i, w[i], w[0] + i * d))
    a = 2.0 / (n * (1.0 + s))
    if abs(w[0] - a) > TOL * wmax * 10:
        raise Violation('closed_form', '%s: n=%d s=%r first weight %r, expected %r'
                        % (where, n, s, w[0], a))
    if s >= 1 and any(w[i + 1] < w[i] - TOL * wmax for i in range(n - 1)):
        raise Violation('monotone', '%s: n=%d s=%r >= 1 but weights decrease' % (where, n, s))
    if s <= 1 and any(w[i + 1] > w[i] + TOL * wmax for i in range(n - 1)):
        raise Violation('monotone', '%s: n=%d s=%r <= 1 but weights increase' % (where, n, s))
    return w


def run_pipeline(case):
    """Generator(args): every weight vector handed to numpy.random.choice for drawing a
    preference list must be the linear distribution for (number of rankable agents, skew)."""
    import numpy as np
    from .. import genargs
    v = case['v']
    n2 = v['n1'] if v['mp'] == 'sm' else v['n2']
    s = float(v.get('skew', 1.0))
    if case.get('prior_skew') is not None:
        w = dict(v, skew=case['prior_skew'])
        genargs.run_generator(genargs.build_argv(w, genargs.fresh_outdir('prior')), v['seed'])
    seen = []
    orig = np.random.choice

    drawn = []

    def spy(a, size=None, replace=True, p=None):
        r = orig(a, size, replace, p)
        if replace is False:
            seen.append((len(a), None if p is None else [float(x) for x in p]))
            drawn.append([int(x) for x in r])
        return r
    np.random.choice = spy
    try:
        outdir = genargs.fresh_outdir()
        status, code, err = genargs.run_generator(genargs.build_argv(v, outdir), v['seed'])
    except Violation as e:
        if e.facet.startswith('exception:'):     # "accepted runs do not fail" is C15's statement
            return Result(False, ['pipeline', 'skipped:exception'])
        raise
    finally:
        np.random.choice = orig
    if status != 'ok':
        return Result(False, ['pipeline', 'skipped:rejected'])
    if not seen:
        # the lists were not drawn through numpy.random.choice at all: nothing to observe at
        # this seam (the statistical kind looks at the written lists instead)
        return Result(False, ['pipeline', 'skipped:no_draws_observed'])
    if len(seen) != v['n1'] * v['numinst']:
        raise Violation('pipeline_draws', '%d preference lists requested, %d weighted draws '
                        'without replacement observed' % (v['n1'] * v['numinst'], len(seen)))
    # the lists that were drawn with those weights are the lists that are written: entry order
    # (who was drawn first) included
    for idx, text in enumerate(genargs.read_outputs(outdir, v['numinst'])):
        rows = text.split('\n')[1:1 + v['n1']]
        for i, row in enumerate(rows):
            got = [int(t.strip('()')) for t in row.split()[1:] if t.strip('()').isdigit()]
            want = drawn[idx * v['n1'] + i]
            if got != want:
                raise Violation('pipeline_list_changed', 'instance %d, first-side agent %d: the '
                                'list drawn with the popularity weights was %r, the file has %r'
                                % (idx, i + 1, want, got))
    for na, p in seen:
        if p is None:
            raise Violation('pipeline_unweighted', 'preference list drawn without popularity '
                            'weights (skew %r)' % s)
        check_weights(p, n2, s, 'weights used by Generator(-mp %s -skew %r)' % (v['mp'], s))
    return Result(n2 >= 3 and s != 1, ['pipeline', 'mp=' + v['mp']] + ['big_pool'] * (n2 >= 1000) + [
                                       'skew_given' if 'skew' in v else 'skew_default']
                  + (['after_prior_run'] if case.get('prior_skew') is not None else []))


LAST = {}


def run_sampling_single(case, v):
    """Lists of one entry (pmin = 1): that entry IS the first draw.  With 2-4 agents the
    weights are far apart (>= 0.08), so the sorted observed frequencies of the one-entry lists
    must equal the sorted weights.  Tolerance: 7 standard deviations of a frequency (taken
    at its worst, p = 1/2: 7 * sqrt(0.25 / number of one-entry lists), i.e. 0.045 for 6000
    lists), false-alarm probability < 3e-12 per frequency."""
    from .. import genargs
    n1, n2, s = case['n1'], case['n2'], case['s']
    outdir = genargs.fresh_outdir()
    try:
        status, code, err = genargs.run_generator(genargs.build_argv(v, outdir), v['seed'])
    except Violation as e:
        if e.facet.startswith('exception:'):
            return Result(False, ['sampling', 'skipped:exception'])
        raise
    if status != 'ok':
        return Result(False, ['sampling', 'skipped:rejected'])
    lines = genargs.read_outputs(outdir, 1)[0].split('\n')[1:1 + n1]
    cnt = [0] * (n2 + 1)
    tot = 0
    for ln in lines:
        toks = [t.strip('()') for t in ln.split()[1:]]
        if len(toks) == 1 and toks[0].isdigit() and 1 <= int(toks[0]) <= n2:
            cnt[int(toks[0])] += 1
            tot += 1
    if tot < 2500:
        return Result(False, ['sampling', 'skipped:few_single_lists'])
    got = sorted(c / float(tot) for c in cnt[1:])
    hi = max(s, 1.0 / s)
    w = [1.0 + i * (hi - 1.0) / (n2 - 1) for i in range(n2)]
    want = sorted(x / sum(w) for x in w)
    dev = max(abs(a - b) for a, b in zip(got, want))
    LAST['dev'] = dev
    tol = 7.0 * (0.25 / tot) ** 0.5
    if dev > tol:
        raise Violation('single_entry_share', 'skew %r, %d agents, %d lists of one entry: sorted '
                        'frequencies %r, the linear popularity gives %r (tolerance %.3f)'
                        % (s, n2, tot, [round(x, 3) for x in got], [round(x, 3) for x in want],
                           tol))
    return Result(True, ['sampling', 'sampling:single_entry_lists', 'mp=' + case['mp'],
                         'sampling:dev<0.02' if dev < 0.02 else 'sampling:dev<0.05'])


def run_sampling(case):
    """'The most popular agent is s times as likely to be drawn first as the least popular one',
    observed on the generated files without looking inside the generator: n1 = 3000 lists of
    fixed length L over n2 agents.  The popularity order of the agents is estimated from
    positions 2..L: the mean position of an agent over the lists in which it is not first
    (absent counts as L+1) decreases with its weight, for complete lists as well as for short
    ones (a plain frequency count would not do: in a complete list every agent that is not
    first appears later).  The share of FIRST
    positions held by the more popular half must then be T = (1+3s)/(4(1+s)) for s >= 1 (the
    mass of the upper half of an arithmetic progression from 1 to s), resp. the mirrored value
    for s < 1.  Tolerance 0.07 absolute: the binomial standard deviation of the share is
    <= 0.0092 with 3000 lists, so a correct generator is outside the tolerance with probability
    < 1e-13 per case (misranked agents near the median have almost equal weights and move the
    share by less than 0.01).  The only other statistical oracle of the suite is in C08."""
    from .. import genargs, refmodel
    n1, n2, L, s = case['n1'], case['n2'], case['L'], case['s']
    v = {'mp': case['mp'], 'numinst': 1, 'n1': n1, 'n2': n2, 'pmin': L, 'pmax': case.get('pmax', L),
         'uq': max(n1, n2), 'skew': s, 'seed': case['seed']}
    if case['mp'] == 'spa':
        v.update(n3=2, luq=n1)
    if case.get('twopl'):
        v['twopl'] = True
    if L == 1:
        return run_sampling_single(case, v)
    outdir = genargs.fresh_outdir()
    try:
        status, code, err = genargs.run_generator(genargs.build_argv(v, outdir), v['seed'])
    except Violation as e:
        if e.facet.startswith('exception:'):
            return Result(False, ['sampling', 'skipped:exception'])
        raise
    if status != 'ok':
        return Result(False, ['sampling', 'skipped:rejected'])
    text = genargs.read_outputs(outdir, 1)[0]
    lines = text.split('\n')[1:1 + n1]
    later = [0] * (n2 + 1)      # sum of positions (2..L) over the lists where present, not first
    seen = [0] * (n2 + 1)       # number of such lists
    first = [0] * (n2 + 1)
    for ln in lines:
        toks = [int(t.strip('()')) for t in ln.split()[1:] if t.strip('()').isdigit()]
        if len(toks) != L or any(t < 1 or t > n2 for t in toks):
            return Result(False, ['sampling', 'skipped:malformed'])       # C08's statement
        first[toks[0]] += 1
        for pos, t in enumerate(toks[1:], 2):
            later[t] += pos
            seen[t] += 1

    def mean_position(a):
        others = n1 - first[a]
        return (later[a] + (others - seen[a]) * (L + 1)) / float(others) if others else L + 1
    order = sorted(range(1, n2 + 1), key=lambda a: (-mean_position(a), a))
    upper = order[n2 // 2:]
    share = sum(first[a] for a in upper) / float(n1)
    hi = max(s, 1.0 / s)
    wts = [1.0 + i * (hi - 1.0) / (n2 - 1) for i in range(n2)]
    theory = sum(wts[n2 - len(upper):]) / sum(wts)   # ~ (1+3s)/(4(1+s)) for large n2
    if abs(share - theory) > 0.07:
        raise Violation('first_choice_share', 'skew %r, %d agents, %d lists of length %d: the more '
                        'popular half of the agents (ranked by their mean position within '
                        '2..%d) holds %.3f of the first positions; the linear popularity with '
                        'ratio %r gives %.3f (tolerance 0.07)' % (s, n2, n1, L, L, share, s, theory))
    dev = abs(share - theory)
    LAST['dev'] = share - theory
    return Result(True, ['sampling', 'mp=' + case['mp'], 'n2=%d' % n2,
                         'sampling:dev<0.02' if dev < 0.02 else (
                             'sampling:dev<0.035' if dev < 0.035 else 'sampling:dev<0.07')])


def run_case(case):
    if case.get('kind') == 'pipeline':
        return run_pipeline(case)
    if case.get('kind') == 'sampling':
        return run_sampling(case)
    from matchingproblems.generator import generator_shared as gs
    n, s = case['n'], case['s']
    s = int(s) if case['typ'] == 'int' else float(s)
    w = call_repo('create_linear_distribution', gs.create_linear_distribution, n, s)
    check_weights(w, n, s, 'create_linear_distribution')
    if n == 1:
        return Result(False, ['n=1'])
    labels = ['s>1' if s > 1 else ('s<1' if s < 1 else 's=1'), case['typ'],
              'n<=12' if n <= 12 else ('n>12' if n < 1000 else 'n>=1000')]
    return Result(n >= 3 and s != 1, labels)

MANIFEST = {
    'technique': 'property-based testing (Hypothesis) + exhaustive grid, closed-form oracle',
    'text': 'Generated-input search: every (n, s) on a 40 x 60 grid plus 20 000 (quick) / '
            '500 000 (thorough) drawn cases are passed to create_linear_distribution and the '
            'returned weights are compared with the definition (positive, sum 1, arithmetic '
            'progression, last/first = s, closed form). Exploration, not proof: the function is '
            'a ten-line numeric formula whose only inputs are n and s, so dense sampling of '
            'both is the appropriate level.',
    'note': 'Trusted: IEEE double arithmetic within 1e-9 relative tolerance; the reduction of '
            '"s times as likely" to the weight vector (numpy.random.choice is not re-tested).',
}
MANIFEST['text'] += (' ' + 'n goes up to 10001 (thousands of agents); big pools of 1000-2600 rankable agents with short lists go through Generator(args); a statistical kind reads who comes FIRST in 3000 generated lists and compares the share of the more popular half with the linear popularity (tolerance 7 standard deviations). 4% of the cases run Generator(args) (after an earlier run with another skew) and check every weight vector handed to numpy.random.choice.')
