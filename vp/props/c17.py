"""C17 - popularity skew is linear with the requested ratio.

Domain: n in 1..300 (quick) / 1..2000 (thorough), skew s > 0 given as float or
int; an exhaustive grid n in 1..40 x 60 skews plus drawn cases.
Oracle (tolerance 1e-9 relative, stated): weights positive, sum to one,
arithmetic progression, last/first == s; n == 1 -> [1.0]; s >= 1 -> non-decreasing;
s <= 1 -> non-increasing; and the closed form w_i = (1 + i(s-1)/(n-1)) / (n(1+s)/2).
"""
import math

from hypothesis import strategies as st

from ..common import Result, Violation, call_repo

ID = 'C17'
LEVEL = 'exploration'
ENGINE = 'hypothesis + exhaustive grid'
RULE = ('cases are (n, s, numeric type of s); grid n=1..40 x 60 skews enumerated, the '
        'rest drawn (n up to 300/2000, s log-uniform in [1e-6,1e6], near-1 values, '
        'integers); non-trivial = n >= 3 and s != 1; distinct = distinct (n, s, type)')
ASSUMPTIONS = [
    'floating point tolerance 1e-9 relative on every comparison',
    '"s times as likely to be drawn first" is reduced to the weights handed to '
    'numpy.random.choice(p=...); the sampling itself is not re-tested',
]
EXHAUSTIVE = {'quick': False, 'thorough': False}
TOL = 1e-9

GRID_SKEWS = ([1, 2, 3, 5, 10, 100, 1000, 10 ** 6, 1.0, 1.5, 2.5, 7.25, 0.5, 0.25, 0.1,
               0.001, 1e-6, 0.999999, 1.000001, 0.9, 1.1, 50.0, 49.99, 12345.678]
              + [10 ** (k / 6.0) for k in range(-18, 18)])


def budget(tier):
    return 20000 if tier == 'quick' else 500000


def exhaustive(tier):
    for n in range(1, 41):
        for s in GRID_SKEWS:
            yield {'n': n, 's': s, 'typ': 'int' if isinstance(s, int) else 'float'}


@st.composite
def _case(draw, nmax):
    n = draw(st.one_of(st.integers(1, 12), st.integers(1, nmax)))
    kind = draw(st.sampled_from(['log', 'log', 'int', 'near1', 'small', 'one']))
    if kind == 'log':
        s = 10.0 ** draw(st.floats(-6, 6, allow_nan=False))
    elif kind == 'int':
        s = draw(st.one_of(st.integers(1, 20), st.integers(1, 10 ** 6)))
    elif kind == 'near1':
        s = 1.0 + draw(st.sampled_from([-1, 1])) * 10.0 ** draw(st.floats(-12, -1))
    elif kind == 'small':
        s = 10.0 ** draw(st.floats(-6, -2))
    else:
        s = draw(st.sampled_from([1, 1.0]))
    return {'n': n, 's': s, 'typ': 'int' if isinstance(s, int) else 'float'}


def strategy(tier):
    return _case(300 if tier == 'quick' else 2000)


def run_case(case):
    from matchingproblems.generator import generator_shared as gs
    n, s = case['n'], case['s']
    s = int(s) if case['typ'] == 'int' else float(s)
    w = call_repo('create_linear_distribution', gs.create_linear_distribution, n, s)
    try:
        w = [float(x) for x in w]
    except Exception as e:
        raise Violation('shape', 'result is not a sequence of numbers: %r (%s)' % (w, e))
    if len(w) != n:
        raise Violation('shape', 'n=%d but %d weights' % (n, len(w)))
    if any((not math.isfinite(x)) or x <= 0 for x in w):
        raise Violation('positive', 'n=%d s=%r weights not all positive/finite: %r'
                        % (n, s, w[:5]))
    tot = math.fsum(w)
    if abs(tot - 1.0) > TOL:
        raise Violation('sum', 'n=%d s=%r weights sum to %r' % (n, s, tot))
    if n == 1:
        if abs(w[0] - 1.0) > TOL:
            raise Violation('single', 'single agent gets weight %r' % w[0])
        return Result(False, ['n=1'])
    wmax = max(w)
    ratio = w[-1] / w[0]
    if abs(ratio - s) > TOL * max(1.0, abs(s)) * 10:
        raise Violation('ratio', 'n=%d s=%r last/first=%r' % (n, s, ratio))
    d = (w[-1] - w[0]) / (n - 1)
    for i in range(n):
        if abs(w[i] - (w[0] + i * d)) > TOL * wmax:
            raise Violation('arithmetic', 'n=%d s=%r: w[%d]=%r is off the line through the '
                            'end points (%r)' % (n, s, i, w[i], w[0] + i * d))
    # closed form (sum of an arithmetic progression with first a, last a*s is n*a*(1+s)/2)
    a = 2.0 / (n * (1.0 + s))
    if abs(w[0] - a) > TOL * wmax * 10:
        raise Violation('closed_form', 'n=%d s=%r first weight %r, expected %r' % (n, s, w[0], a))
    if s >= 1 and any(w[i + 1] < w[i] - TOL * wmax for i in range(n - 1)):
        raise Violation('monotone', 'n=%d s=%r >= 1 but weights decrease' % (n, s))
    if s <= 1 and any(w[i + 1] > w[i] + TOL * wmax for i in range(n - 1)):
        raise Violation('monotone', 'n=%d s=%r <= 1 but weights increase' % (n, s))
    labels = ['s>1' if s > 1 else ('s<1' if s < 1 else 's=1'), case['typ'],
              'n<=12' if n <= 12 else 'n>12']
    return Result(n >= 3 and s != 1, labels)

MANIFEST = {
    'technique': 'property-based testing (Hypothesis) + exhaustive grid, closed-form oracle',
    'text': 'Generated-input search: every (n, s) on a 40 x 60 grid plus 20 000 (quick) / '
            '500 000 (thorough) drawn cases are passed to create_linear_distribution and the '
            'returned weights are compared with the definition (positive, sum 1, arithmetic '
            'progression, last/first = s, closed form). Exploration, not proof: the function is '
            'a ten-line numeric formula whose only inputs are n and s, so dense sampling of '
            'both is the appropriate level.',
    'note': 'Trusted: IEEE double arithmetic within 1e-9 relative tolerance; the reduction of '
            '"s times as likely" to the weight vector (numpy.random.choice is not re-tested).',
}
