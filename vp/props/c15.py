"""C15 - the generator accepts every documented argument set and cleanly rejects invalid ones.

Domain: legal parameter vectors of each type and ALL single-fault perturbations
of each drawn legal vector (one required parameter removed, one inapplicable
parameter added, one listed bound violated).
Oracle: legal => accepted, numinst files; perturbed => SystemExit(2) with a
usage message on stderr, no other exception, output directory not created.
"""
import os

from hypothesis import strategies as st

from .. import genargs
from ..common import Result, Violation
from ..strategies import pct, uni

ID = 'C15'
LEVEL = 'exploration'
ENGINE = 'hypothesis over legal vectors; exhaustive single-fault perturbation of each'
RULE = ('case = (legal vector, RNG seed); the legal vector is run (must be accepted) and then '
        'every single-fault perturbation of it is run (counter perturbations); non-trivial = '
        'the case produced at least one perturbation of each of the three classes (removed / '
        'banned / bound) - true for every type except that spa has no banned parameter; '
        'distinct = distinct legal vector')
ASSUMPTIONS = [
    'required/banned parameters per README section 2; only the bounds listed in the property '
    'are perturbed (counts >= 1, 1 <= pmin <= pmax <= rankable, ties in [0,1], uq >= n2, '
    'lq <= uq, llq <= lt <= luq)',
]

BANNED_VALUES = {'twopl': True, 'n2': 3, 'n3': 2, 't2': 0.5, 'uq': 9, 'lq': 0, 'llq': 0,
                 'luq': 5, 'lt': 1}


def budget(tier):
    return 2500 if tier == 'quick' else 100000


@st.composite
def _cases(draw, tier):
    v = draw(genargs.legal_vectors(nmax=(8, 6, 4), numinst_max=2))
    return {'v': v, 'prior': draw(genargs.prior_runs())}


def strategy(tier):
    return _cases(tier)


def describe(case):
    return {'legal_argv': genargs.build_argv(case['v'], '<outdir>'),
            'perturbations': [name for name, _ in perturbations(case['v'])]}


def perturbations(v):
    """All single-fault perturbations of a legal vector: list of (name, vector)."""
    mp = v['mp']
    out = []
    n2 = v['n1'] if mp == 'sm' else v['n2']
    for k in genargs.REQUIRED[mp] + ['numinst', 'o', 'mp']:
        w = dict(v)
        if k == 'o':
            w['_drop_o'] = True
        else:
            w.pop(k, None)
        out.append(('remove:' + k, w))
    for k in genargs.BANNED[mp]:
        w = dict(v)
        w[k] = BANNED_VALUES[k]
        out.append(('banned:' + k, w))

    def b(name, **kw):
        w = dict(v)
        w.update(kw)
        out.append(('bound:' + name, w))
    b('numinst=0', numinst=0)
    b('n1=0', n1=0)
    if mp != 'sm':
        b('n2=0', n2=0)
    if mp == 'spa':
        b('n3=0', n3=0)
    b('pmin=0', pmin=0)
    b('pmin>pmax', pmin=v['pmax'] + 1)
    b('pmax>rankable', pmax=n2 + 1)
    b('t1<0', t1=-0.1)
    b('t1>1', t1=1.5)
    b('t1>1 by a hair', t1='1.0000000005')
    b('t1<0 by a hair', t1='-0.000000000001')
    if mp != 'ha':
        b('t2<0', t2=-0.25)
        b('t2>1', t2=1.01)
        b('t2>1 by a hair', t2='1.0000000000000002')
    if mp != 'sm':
        b('uq<n2', uq=n2 - 1, lq=0)
        b('lq>uq', lq=v['uq'] + 1)
    if mp == 'spa':
        b('llq>lt', llq=int(v.get('lt', 0)) + 1)
        b('lt>luq', lt=v['luq'] + 1)
    # the same bounds exceeded by a fraction only (a value that is not a whole number never
    # satisfies an integer bound, however it is rounded)
    b('frac:n1<1', n1=0.5)
    b('frac:pmin>pmax', pmin=v['pmax'] + 0.5)
    b('frac:pmax>rankable', pmax=n2 + 0.9)
    if mp != 'sm':
        b('frac:lq>uq', lq=v['uq'] + 0.5)
    if mp == 'spa':
        b('frac:llq>lt', llq=int(v.get('lt', 0)) + 0.5)
        b('frac:lt>luq', lt=v['luq'] + 0.7)
    return out


def _argv(w, outdir):
    argv = genargs.build_argv({k: x for k, x in w.items() if not k.startswith('_')}, outdir)
    if w.get('_drop_o'):
        out = []
        skip = False
        for t in argv:
            if skip:
                skip = False
                continue
            if t in ('-o', '--outputdirectory'):
                skip = True
                continue
            if t.startswith('-o=') or t.startswith('--outputdirectory='):
                continue
            out.append(t)
        argv = out
    return argv


def run_case(case):
    v = case['v']
    genargs.run_prior(case.get('prior'))
    # 1. the legal vector is accepted
    nested = v['seed'] % 2 == 1
    outdir = genargs.fresh_outdir('legal', nested, style=(v['seed'] // 2) % 6)
    cwd = None
    if (v['seed'] // 7) % 3 == 0:
        # the README spelling: a path relative to the current directory, `-o ./hr/instances`
        cwd, rel = genargs.relative_outdir(outdir)
        argv = genargs.build_argv(v, rel)
    else:
        argv = genargs.build_argv(v, outdir)
    status, code, err = genargs.run_generator(argv, v['seed'], cwd=cwd)
    if status != 'ok':
        raise Violation('legal_rejected:' + v['mp'], 'documented argument set %r exited with %r: %s'
                        % (argv, code, err.strip()[-200:]))
    genargs.read_outputs(outdir, v['numinst'])
    # 2. every single-fault perturbation is rejected cleanly
    classes = set()
    n = 0
    for name, w in perturbations(v):
        outdir = genargs.fresh_outdir('pert', nested, style=(v['seed'] // 2) % 6)
        argv = _argv(w, outdir)
        status, code, err = genargs.run_generator(argv, v['seed'])
        n += 1
        classes.add(name.split(':')[0])
        if status == 'ok':
            made = sorted(os.listdir(outdir)) if os.path.isdir(outdir) else None
            raise Violation('invalid_accepted:' + name.split('=')[0].split('<')[0].split('>')[0],
                            '%s: argument set %r was accepted (files: %r)' % (name, argv, made))
        if code != 2:
            raise Violation('wrong_exit_code', '%s: %r exited with code %r' % (name, argv, code))
        if 'usage:' not in err:
            raise Violation('no_usage_message', '%s: %r rejected without a usage message: %r'
                            % (name, argv, err[-200:]))
        if os.path.exists(genargs.outdir_top(outdir)):
            raise Violation('directory_created_on_reject', '%s: %r was rejected but %s exists'
                            % (name, argv, genargs.outdir_top(outdir)))
    labels = ['mp=' + v['mp'], 'nested_outdir' if nested else 'flat_outdir'] + ['optional:' + k for k in genargs.OPTIONAL[v['mp']] if k in v]
    return Result(len(classes) == 3 or (v['mp'] == 'spa' and len(classes) == 2), labels,
                  {'perturbations': n, 'legal_runs': 1})


MANIFEST = {
    'technique': 'property-based testing with exhaustive single-fault perturbation of every '
                 'generated legal argument vector',
    'text': 'Generated legal argument vectors of all four problem types must be accepted and '
            'write their files; each is then perturbed in every single way the property lists '
            '(required parameter removed, banned parameter added, bound violated: ~15-25 '
            'perturbations per vector) and every perturbation must end in SystemExit(2) with a '
            'usage message, no other exception, and no output directory. Exploration.',
    'note': 'Trusted: README table of required parameters and the bounds listed in the property. '
            'Bounds the parser does not claim (e.g. skew <= 0) are not asserted.',
}
MANIFEST['text'] += (' ' + 'Half of the cases use a nested -o path whose parent does not exist; 10% are preceded by an unrelated Generator run.')
MANIFEST['text'] += (' ' + 'Bound violations are also written as fractions (pmax = n2 + 0.9, lq = uq + 0.5, ...).')
MANIFEST['text'] += (' ' + 'Bounds are also violated by a hair (1.0000000005, -1e-12); a third of the legal runs spell -o relative to the current directory (./x, hidden directories), names with upper-case letters, blanks and trailing slashes.')
