"""C08 - generated files are well-formed instances of the requested type and parameters.

Oracle: the independent reader (refmodel.parse, strict about the grammar) plus
arithmetic on the request.  One statistical sub-check ("every list length in
[pmin, pmax] can occur") with a stated, negligible false-alarm probability.
"""
import re

from hypothesis import strategies as st

from .. import genargs, refmodel
from ..common import Result, Violation
from ..strategies import pct, uni

ID = 'C08'
LEVEL = 'exploration'
ENGINE = 'hypothesis over legal generator argument vectors x RNG seeds; independent reader'
RULE = ('case = (problem type, legal parameter vector built in dependency order, RNG seed); '
        'kind "lengths" draws (pmin, pmax) with pmax-pmin <= 5 and asks for >= 400 lists; '
        'non-trivial = the run shows at least two different list lengths, or a tie, or an uneven '
        'quota split; distinct = distinct case')
ASSUMPTIONS = [
    'the process-global random and numpy.random generators are seeded from the case immediately '
    'before Generator(args); the generator is then a pure function of the case',
    'kind "lengths": a correct generator misses some length in [pmin,pmax] among >= 400 lists '
    'with probability < 6*(5/6)^400 ~ 1e-31 per case',
    'SM: n2 = n1, every upper quota 1 and lower quota 0',
]


def budget(tier):
    return 8000 if tier == 'quick' else 250000


@st.composite
def _cases(draw, tier):
    if pct(draw) < 6:
        # every length in [pmin, pmax] can occur
        mp = draw(st.sampled_from(genargs.TYPES))
        n2 = uni(draw, 2, 9)
        pmin = uni(draw, 1, n2)
        pmax = min(n2, pmin + uni(draw, 0, 5))
        v = {'mp': mp, 'numinst': 1, 'n1': 400 if mp != 'sm' else 0, 'pmin': pmin, 'pmax': pmax,
             'seed': uni(draw, 0, 9999)}
        if mp == 'sm':
            v['n1'] = n2
            v['numinst'] = 400 // n2 + 1
            v['twopl'] = True
        else:
            v['n2'] = n2
            v['uq'] = n2
        if mp == 'hr':
            v['twopl'] = True
        if mp == 'spa':
            v['n3'] = 2
            v['luq'] = 4
        return {'kind': 'lengths', 'v': v}
    k = pct(draw)
    if 90 <= k < 95:
        return {'kind': 'accepted_anyway', 'which': uni(draw, 0, 40),
                'v': draw(genargs.legal_vectors(nmax=(6, 6, 4), numinst_max=2))}
    if k == 99 or (tier == 'thorough' and k >= 97):
        # one list with more than a thousand entries (first side, or one hospital listing all)
        if draw(st.booleans()):
            v = {'mp': draw(st.sampled_from(['ha', 'hr'])), 'numinst': 1, 'n1': 2, 'n2': 1200,
                 'pmin': 1001, 'pmax': 1200, 'uq': 1200, 'seed': uni(draw, 0, 9999)}
        else:
            v = {'mp': 'hr', 'numinst': 1, 'n1': 1100, 'n2': 1, 'pmin': 1, 'pmax': 1,
                 'uq': 1100, 'seed': uni(draw, 0, 9999)}
        if v['mp'] == 'hr':
            v['twopl'] = True
        return {'kind': 'wellformed', 'v': v}
    if k < 4:
        # many instances in one run (file naming, per-run state)
        v = draw(genargs.legal_vectors(nmax=(4, 4, 3), numinst_max=1))
        v['numinst'] = draw(st.sampled_from([10, 11, 12, 25, 101]))
        return {'kind': 'wellformed', 'v': v}
    if k < 8:
        # large sparse requests: many second-side agents, short lists
        mp = draw(st.sampled_from(genargs.TYPES))
        n2 = draw(st.sampled_from([60, 150, 300]))
        n1 = draw(st.sampled_from([100, 300])) if mp != 'sm' else n2
        pmax = draw(st.sampled_from([1, 2, 5]))
        pmin = draw(st.sampled_from([1, pmax]))
        v = {'mp': mp, 'numinst': 1, 'n1': n1, 'pmin': pmin, 'pmax': pmax,
             'seed': uni(draw, 0, 9999), 'skew': draw(st.sampled_from([1.0, 3.0]))}
        if mp != 'sm':
            v['n2'] = n2
            v['uq'] = n2 + draw(st.sampled_from([0, 7]))
        if mp in ('sm', 'hr'):
            v['twopl'] = True
        if mp == 'spa':
            v['n3'] = draw(st.sampled_from([7, 40]))
            v['luq'] = v['n3'] * 3
        return {'kind': 'wellformed', 'v': v}
    big = (30, 12, 8) if tier == 'thorough' else (12, 8, 6)
    prior = draw(genargs.prior_runs())
    return {'kind': 'wellformed', 'v': draw(genargs.legal_vectors(nmax=big, numinst_max=4)),
            'prior': prior, 'prior_same_dir': draw(st.booleans())}


def strategy(tier):
    return _cases(tier)


def describe(case):
    return {'kind': case['kind'], 'argv': genargs.build_argv(case['v'], '<outdir>'),
            'rng_seed': case['v']['seed']}


def even_split(vec, total, what):
    if sum(vec) != total:
        raise Violation('quota_sum:' + what, '%s %r sum to %d, requested total %r'
                        % (what, vec, sum(vec), total))
    if vec and max(vec) - min(vec) > 1:
        raise Violation('quota_even:' + what, '%s %r differ by more than one' % (what, vec))
    if any(a < b for a, b in zip(vec, vec[1:])):
        raise Violation('quota_order:' + what, '%s %r: larger shares must come first' % (what, vec))


def check_info(info, v, n2):
    if not info or info[0].strip() != '':
        raise Violation('info_block', 'no blank line before the parameter block: %r' % info[:2])
    kv = {}
    for line in info[1:]:
        m = re.match(r'^([a-z0-9_]+): (.*)$', line)
        if m:
            kv[m.group(1)] = m.group(2)
    if not any(l.strip() == 'instance generation parameters' for l in info):
        raise Violation('info_block', 'parameter block header missing')
    want = {'number_of_agents_type_1': v['n1'], 'number_of_agents_type_2': n2,
            'min_pref_list_length': v['pmin'], 'max_pref_list_length': v['pmax'],
            'ties_probability_1': v.get('t1', 0.0), 'ties_probability_2': v.get('t2', 0.0),
            'sum_agent2_lower_quotas': v.get('lq', 0),
            'sum_agent2_upper_quotas': v.get('uq', n2), 'skew_for_agent_1': v.get('skew', 1.0)}
    if v['mp'] == 'spa':
        want.update({'number_of_agents_type_3': v['n3'],
                     'sum_agent3_lower_quotas': v.get('llq', 0),
                     'sum_agent3_targets': v.get('lt', 0),
                     'sum_agent3_upper_quotas': v['luq']})
    for k, w in want.items():
        if k not in kv:
            raise Violation('info_block', 'parameter block lacks %s' % k)
        try:
            if float(kv[k]) != float(w):
                raise ValueError
        except ValueError:
            raise Violation('info_block', 'parameter block says %s: %s, requested %r'
                            % (k, kv[k], w))


def check_file(text, v):
    mp = v['mp']
    na = genargs.na_of(v)
    n2 = v['n1'] if mp == 'sm' else v['n2']
    try:
        I, info = refmodel.parse(text, na)
    except refmodel.FormatError as e:
        raise Violation('malformed', 'generated file is not in the documented format: %s' % e)
    if (I['n1'], I['n2']) != (v['n1'], n2) or (na == 3 and I['n3'] != v['n3']):
        raise Violation('header', 'header counts %r, requested %r'
                        % ((I['n1'], I['n2'], I['n3']), (v['n1'], n2, v.get('n3'))))
    t1, t2 = v.get('t1', 0.0), v.get('t2', 0.0)
    lens = set()
    for i, groups in enumerate(I['prefs']):
        flat = [x for g in groups for x in g]
        lens.add(len(flat))
        if not (v['pmin'] <= len(flat) <= v['pmax']):
            raise Violation('list_length', 'list %d has %d entries, requested [%d,%d]'
                            % (i + 1, len(flat), v['pmin'], v['pmax']))
        if len(set(flat)) != len(flat) or any(x < 1 or x > n2 for x in flat):
            raise Violation('list_entries', 'list %d = %r: entries must be distinct and in 1..%d'
                            % (i + 1, flat, n2))
        if t1 == 0.0 and any(len(g) > 1 for g in groups):
            raise Violation('ties_side1', 'tie probability 0 but list %d has a tie' % (i + 1))
        if t1 == 1.0 and len(groups) != 1:
            raise Violation('ties_side1', 'tie probability 1 but list %d is %r' % (i + 1, groups))
    even_split(I['puq'], v.get('uq', n2), 'upper quotas')
    even_split(I['plq'], v.get('lq', 0), 'lower quotas')
    if any(a > b for a, b in zip(I['plq'], I['puq'])):
        raise Violation('lq_le_uq', 'lower %r above upper %r' % (I['plq'], I['puq']))
    if mp == 'spa':
        even_split(I['luq'], v['luq'], 'lecturer upper quotas')
        even_split(I['lt'], v.get('lt', 0), 'lecturer targets')
        even_split(I['llq'], v.get('llq', 0), 'lecturer lower quotas')
        if any(not (a <= b <= c) for a, b, c in zip(I['llq'], I['lt'], I['luq'])):
            raise Violation('llq_lt_luq', 'lecturer lower/target/upper %r %r %r'
                            % (I['llq'], I['lt'], I['luq']))
        if any(l < 1 or l > v['n3'] for l in I['plec']):
            raise Violation('project_lecturer', 'lecturer ids %r outside 1..%d'
                            % (I['plec'], v['n3']))
        per = [I['plec'].count(k + 1) for k in range(v['n3'])]
        even_split(per, n2, 'projects per lecturer')
    twopl = bool(v.get('twopl'))
    if not twopl and I['second_present']:
        raise Violation('second_side_when_one_sided', 'one-sided request but second-side lines '
                        'carry lists: %r' % ([l for l in I['lprefs'] if l][:2],))
    if twopl:
        for k, groups in enumerate(I['lprefs']):
            if t2 == 0.0 and any(len(g) > 1 for g in groups):
                raise Violation('ties_side2', 'tie probability 0 but second-side list %d has a tie'
                                % (k + 1))
            if t2 == 1.0 and len(groups) > 1:
                raise Violation('ties_side2', 'tie probability 1 but second-side list %d is %r'
                                % (k + 1, groups))
    check_info(info, v, n2)
    return I, lens


def run_accepted_anyway(case, outdir):
    """The property speaks about every ACCEPTED run, not about the runs this harness considers
    legal: a vector with one violated bound is normally refused (C15's statement, not asserted
    here); should it be accepted, the files it writes must still be what the property says -
    in particular lower <= target <= upper everywhere and lists within [pmin, pmax]."""
    from .c15 import perturbations
    v = case['v']
    cands = [(n, w) for n, w in perturbations(v) if n.startswith('bound:') and 'frac' not in n
             and w.get('numinst', 1) >= 1 and w.get('n1', 1) >= 1 and w.get('n2', 1) >= 1
             and w.get('n3', 1) >= 1]
    name, w = cands[case['which'] % len(cands)]
    try:
        status, code, err = genargs.run_generator(genargs.build_argv(w, outdir), v['seed'])
    except Violation:
        return Result(False, ['kind=accepted_anyway', 'skipped:exception'])
    if status != 'ok':
        return Result(False, ['kind=accepted_anyway', 'refused'])
    for t in genargs.read_outputs(outdir, w['numinst']):
        try:
            check_file(t, w)
        except Violation as e:
            raise Violation(e.facet, 'run accepted although %s; %s' % (name, e.detail))
    return Result(True, ['kind=accepted_anyway', 'accepted:' + name])


def run_case(case):
    v = case['v']
    outdir = genargs.fresh_outdir(nested=v['seed'] % 3 == 0, style=(v['seed'] // 3) % 6)
    if case['kind'] == 'accepted_anyway':
        return run_accepted_anyway(case, outdir)
    reused = bool(case.get('prior')) and bool(case.get('prior_same_dir'))
    if reused:
        # the output directory already holds files 0.txt.. of an earlier, different run
        p = case['prior']
        genargs.run_generator(genargs.build_argv(p, outdir), p['seed'])
    else:
        genargs.run_prior(case.get('prior'))
    cwd = None
    if (v['seed'] // 7) % 3 == 0 and not reused:
        cwd, rel = genargs.relative_outdir(outdir)
        argv = genargs.build_argv(v, rel)
    else:
        argv = genargs.build_argv(v, outdir)
    status, code, err = genargs.run_generator(argv, v['seed'], cwd=cwd)
    if status != 'ok':
        raise Violation('legal_rejected:' + v['mp'], 'legal argument vector %r exited with %r: %s'
                        % (argv, code, err.strip()[-160:]))
    texts = genargs.read_outputs(outdir, v['numinst'], allow_extra=reused)
    lens, ties, uneven = set(), False, False
    for t in texts:
        I, l = check_file(t, v)
        lens |= l
        ties = ties or any(len(g) > 1 for pl in I['prefs'] for g in pl)
        uneven = uneven or len(set(I['puq'])) > 1 or len(set(I['luq'])) > 1
    labels = ['mp=' + v['mp'], 'kind=' + case['kind'], 'twopl' if v.get('twopl') else 'one_sided']
    if v['numinst'] >= 10:
        labels.append('numinst>=10')
    if reused:
        labels.append('output_dir_reused')
    if v['pmax'] > 1000 or v['n1'] > 1000:
        labels.append('list>1000')
    if v.get('n2', v['n1']) >= 60:
        labels.append('n2>=60')
    if case['kind'] == 'lengths':
        missing = [l for l in range(v['pmin'], v['pmax'] + 1) if l not in lens]
        if missing:
            raise Violation('length_never_occurs', 'pmin=%d pmax=%d: lengths %r never occur among '
                            '>= 400 lists' % (v['pmin'], v['pmax'], missing))
    if v.get('t1') in (0.0, 1.0) and 't1' in v:
        labels.append('t1=%g' % v['t1'])
    if v.get('t2') in (0.0, 1.0) and 't2' in v:
        labels.append('t2=%g' % v['t2'])
    if uneven:
        labels.append('uneven_quota_split')
    return Result(len(lens) >= 2 or ties or uneven, labels, {'files': len(texts)})


MANIFEST = {
    'technique': 'property-based testing of Generator(args) as a seeded pure function; '
                 'independent strict reader + arithmetic oracle; one seeded statistical sub-check',
    'text': 'For generated legal argument vectors of all four problem types and drawn RNG seeds '
            'the output directory and every file are checked with an independent reader: file '
            'set, header, numbering, list lengths and entries, quota/target/projects-per-lecturer '
            'spreading and sums, tie probability 0/1, absence of second-side lists on one-sided '
            'requests, parameter block. A dedicated sub-case asks for >= 400 lists and requires '
            'every length in [pmin,pmax] to occur. Exploration.',
    'note': 'Trusted: the documented file grammar (DESIGN.md section 1) as implemented by '
            'refmodel.parse; numpy/random seeding makes runs reproducible.',
}
MANIFEST['text'] += (' ' + 'Shapes: 10..101 instances per run, n2 up to 300 with hundreds of short lists, nested output paths, an unrelated earlier Generator run in the same process.')
MANIFEST['text'] += (' ' + 'Output directory names with upper-case letters, a blank or a trailing slash; 5% of the cases hand over a vector with one violated bound and, if the run is accepted all the same, hold its files to the same statement.')
