"""C07 - brute-force mode reports the exact optimum of every statistic it prints.

Oracle: definition-level enumeration in the reference model; differential
against the LP path (CBC) with the corresponding criteria sequences.
"""
from hypothesis import strategies as st

from .. import refbackend, refmodel, restext, solverio, strategies
from ..common import Result, Violation, call_repo
from ..strategies import pct
from . import _lp

ID = 'C07'
LEVEL = 'exploration'
ENGINE = 'hypothesis; brute-force mode vs enumeration oracle; differential vs LP mode on CBC'
RULE = ('case = (instance with (n2+1)^n1 <= 625 (quick) / 7776 (thorough), one- or two-sided, '
        '2- or 3-agent, lower quotas, max rank below and above the number of students; -pc; '
        '-twopl; 12% of the cases also run the LP path with the corresponding criteria); '
        'non-trivial = at least two valid maximum-size matchings with different profiles; '
        'distinct = distinct case')
ASSUMPTIONS = [
    'cost pairs are compared lexicographically (student cost first), as tuples',
    '"most generous" compares profiles from the last rank down (fewer is better), "most greedy" '
    'from rank 1 up (more is better)',
]
SIZES = {'quick': dict(n1=4, n2=4, n3=3, lmax=4), 'thorough': dict(n1=5, n2=5, n3=4, lmax=5)}

DIFF = [  # (criteria, brute-force key, how to read the LP result)
    ([['maxsize', 1, []]], 'optimal_size', lambda s: s['size']),
    ([['maxsize', 1, []], ['mincost', 2, []]], 'optimal_maxsizemincost', lambda s: s['cost'][0]),
    ([['maxsize', 1, []], ['minsqcost', 2, []]], 'optimal_maxsizeminsqcost',
     lambda s: s['cost_sq'][0]),
    ([['maxsize', 1, []], ['gen', 2, []]], 'optimal_generousmaxprofile', lambda s: s['profile']),
    ([['maxsize', 1, []], ['gre', 2, []]], 'optimal_greedymaxprofile', lambda s: s['profile']),
    ([['gre', 1, []]], 'optimal_greedyprofile', lambda s: s['profile']),
    ([['lmb', 1, []]], 'optimal_max_lec_abs_diff', lambda s: s['max_lec_abs_diff']),
    ([['lsb', 1, []]], 'optimal_sum_lec_abs_diff', lambda s: s['sum_lec_abs_diff']),
]


def budget(tier):
    return 9000 if tier == 'quick' else 150000


@st.composite
def _cases(draw, tier):
    diff = pct(draw) < 12
    pc = pct(draw) < 35
    # solve() arguments the brute-force path has no use for: the optima must not depend on them
    limit = draw(st.sampled_from([None, None, None, None, 0, 1e-06, 5, 3600]))
    if pct(draw) < 6:
        inst = draw(strategies.load_conflict_instances())
        return {'inst': inst, 'pc': pct(draw) < 85, 'twopl': False, 'diff': False,
                'limit': limit}
    shape = draw(st.sampled_from(['mix', 'contention', 'contention', 'few_students_long_lists',
                                  'few_students_long_lists', 'few_students_long_lists',
                                  'only_empty', 'many_projects', 'tied_exact']))
    sizes = dict(SIZES[tier])
    if shape == 'few_students_long_lists':
        # ranks up to 7 with two or three students: (1,5) vs (3,4), (1,1,4) vs (2,2,3) ...
        sizes = dict(n1=3, n2=7, n2min=4, n3=3, lmax=7)
    if shape == 'many_projects':
        # two-digit project / lecturer ids: (n2+1)^n1 <= 14^3
        sizes = dict(n1=3, n2=13, n2min=10, n3=12, lmax=4)
    kwi = {}
    if shape == 'few_students_long_lists':
        kwi = dict(cls=draw(st.sampled_from(['zero_capacity', 'zero_capacity', 'generic'])),
                   min_len=5)
    if shape == 'tied_exact':
        kwi = dict(cls='heavy_ties', two_sided=True)
    inst = draw(strategies.instances(sizes, min_len=2 if shape == 'contention' else 1)
                if not kwi else strategies.instances(sizes, **kwi))
    if shape == 'tied_exact':
        # capacities that are exactly filled when everybody gets a first choice
        cap = [0] * inst['n2']
        for pl in inst['prefs']:
            if pl:
                cap[pl[0][0] - 1] += 1
        inst['puq'] = cap
        inst['plq'] = [0] * inst['n2']
        if inst['na'] == 2:
            inst['luq'], inst['lt'], inst['llq'] = list(cap), list(cap), [0] * inst['n2']
        else:
            tot = [sum(cap[j] for j in range(inst['n2']) if inst['plec'][j] == k + 1)
                   for k in range(inst['n3'])]
            inst['luq'], inst['lt'], inst['llq'] = list(tot), list(tot), [0] * inst['n3']
    if shape == 'contention':
        # capacity-one projects fought over by several students with strict lists: maximum
        # size, greedy and generous optima pull in different directions
        inst['prefs'] = [[[x] for g in pl for x in g] for pl in inst['prefs']]
        inst['puq'] = [1 if pct(draw) < 85 else 0 for _ in range(inst['n2'])]
        inst['plq'] = [0] * inst['n2']
        if inst['na'] == 2:
            inst['luq'] = list(inst['puq'])
            inst['lt'] = list(inst['puq'])
            inst['llq'] = [0] * inst['n2']
        else:
            inst['llq'] = [0] * inst['n3']
    if shape == 'only_empty' and pct(draw) < 60:
        inst['puq'] = [0] * inst['n2']
        inst['plq'] = [0] * inst['n2']
        if inst['na'] == 2:
            inst['luq'] = [0] * inst['n2']
            inst['lt'] = [0] * inst['n2']
            inst['llq'] = [0] * inst['n2']
    twopl = inst['lprefs'] is not None and pct(draw) < 80
    return {'inst': inst, 'pc': pc, 'twopl': twopl, 'diff': diff, 'limit': limit}


def exhaustive(tier):
    """Two students, each with exactly two usable projects at ranks a<b resp. c<d in 1..R
    (all other listed projects have capacity 0), every way the usable projects may coincide,
    and three id layouts (enumeration orders): all rank/cost/squared-cost trade-offs between
    two maximum-size matchings."""
    import itertools
    R = 6 if tier == 'quick' else 7
    pairs = list(itertools.combinations(range(1, R + 1), 2))
    for (a, b) in pairs:
        for (c, d) in pairs:
            for clash in (None, (a, c), (a, d), (b, c), (b, d)):
                for layout in (0, 1, 2):
                    # project names: ('x', r) for student 1's rank r, ('y', r) for student 2's
                    names = [('x', r) for r in range(1, b + 1)] + [('y', r) for r in range(1, d + 1)]
                    alias = {}
                    if clash:
                        alias[('y', clash[1])] = ('x', clash[0])
                    uniq = []
                    for n in names:
                        n = alias.get(n, n)
                        if n not in uniq:
                            uniq.append(n)
                    if layout == 1:
                        uniq = list(reversed(uniq))
                    elif layout == 2:
                        uniq = uniq[1::2] + uniq[0::2]
                    pid = {n: i + 1 for i, n in enumerate(uniq)}
                    l1 = [[pid[('x', r)]] for r in range(1, b + 1)]
                    l2 = [[pid[alias.get(('y', r), ('y', r))]] for r in range(1, d + 1)]
                    if len({p[0] for p in l2}) != len(l2):
                        continue
                    usable = {pid[('x', a)], pid[('x', b)], pid[alias.get(('y', c), ('y', c))],
                              pid[alias.get(('y', d), ('y', d))]}
                    n2 = len(uniq)
                    puq = [1 if j + 1 in usable else 0 for j in range(n2)]
                    inst = {'na': 2, 'n1': 2, 'n2': n2, 'n3': n2, 'prefs': [l1, l2],
                            'plq': [0] * n2, 'puq': puq, 'plec': list(range(1, n2 + 1)),
                            'llq': [0] * n2, 'lt': list(puq), 'luq': list(puq), 'lprefs': None,
                            'cls': 'two_student_sweep'}
                    yield {'inst': inst, 'pc': False, 'twopl': False, 'diff': False}
    if tier == 'thorough':
        # the complete universe of 2 students x 2 projects x 2 lecturers: every strict list
        # shape, every project->lecturer map, every (lower, upper) quota pair up to 2, lecturer
        # targets 0..3 under upper quotas 2 and 4, with and without -pc (294 912 instances)
        lists = [[[1]], [[2]], [[1], [2]], [[2], [1]]]
        quota = [(l, u) for u in (0, 1, 2) for l in range(0, u + 1)]
        for p1, p2 in itertools.product(lists, lists):
            for plec in ((1, 1), (1, 2), (2, 1), (2, 2)):
                for (l1, u1), (l2, u2) in itertools.product(quota, quota):
                    for t1, t2 in itertools.product((0, 1, 2, 3), (0, 1, 2, 3)):
                        for lu1, lu2 in itertools.product((2, 4), (2, 4)):
                            inst = {'na': 3, 'n1': 2, 'n2': 2, 'n3': 2, 'prefs': [p1, p2],
                                    'plq': [l1, l2], 'puq': [u1, u2], 'plec': list(plec),
                                    'llq': [0, 0], 'lt': [min(t1, lu1), min(t2, lu2)],
                                    'luq': [lu1, lu2], 'lprefs': None, 'cls': 'tiny_universe'}
                            for pc in (False, True):
                                yield {'inst': inst, 'pc': pc, 'twopl': False, 'diff': False}


def strategy(tier):
    return _cases(tier)


def describe(case):
    return {'instance_file': refmodel.render(case['inst']),
            'argv': ['-f', '<file>', '-na', str(case['inst']['na'])] + ['-twopl'] * case['twopl']
            + ['-pc'] * case['pc'] + ['-bf'], 'differential': case['diff']}


def moregen(a, b):
    for x, y in zip(reversed(a), reversed(b)):
        if x != y:
            return x < y
    return False


def moregre(a, b):
    for x, y in zip(a, b):
        if x != y:
            return x > y
    return False


def best_by(items, better):
    cur = items[0]
    for x in items[1:]:
        if better(x, cur):
            cur = x
    return cur


def expected_values(o, valid):
    """True optimum of every brute-force statistic over the valid matchings."""
    maxsize = max(o.size(M) for M in valid)
    top = [M for M in valid if o.size(M) == maxsize]
    prof_top = [o.profile(M) for M in top]
    prof_all = [o.profile(M) for M in valid]
    want = {
        'optimal_size': maxsize,
        'optimal_maxsizemincost': min(o.cost(M) for M in top),
        'optimal_maxsizemindegree': min(o.degree(M) for M in top),
        'optimal_maxsizeminsqcost': min(o.cost(M, True) for M in top),
        'optimal_generousmaxprofile': best_by(prof_top, moregen),
        'optimal_greedymaxprofile': best_by(prof_top, moregre),
        'optimal_greedyprofile': best_by(prof_all, moregre),
        'optimal_max_lec_abs_diff': min(max(o.absdiffs(M) or [0]) for M in valid),
        'optimal_sum_lec_abs_diff': min(sum(o.absdiffs(M)) for M in valid),
    }
    return want, top, prof_top, maxsize


def run_case(case):
    inst = case['inst']
    text = refmodel.render(inst)
    path = solverio.write_instance(text)
    argv = ['-f', path, '-na', str(inst['na'])] + ['-twopl'] * case['twopl'] + \
        ['-pc'] * case['pc'] + ['-bf']
    solver = solverio.make_solver(argv)
    if case.get('limit') is None:
        call_repo('solve()', solver.solve)
    else:
        call_repo('solve()', solver.solve, msg=False, timeLimit=case['limit'], threads=None,
                  write=False)
    out = restext.parse_bf(call_repo('get_results()', solver.get_results))
    o = refmodel.Oracle(inst, case['twopl'], case['pc'])
    valid = [M for M in o.assignments() if o.valid(M)]
    labels = ['na=%d' % inst['na'], 'twopl' if case['twopl'] else 'one_sided',
              'cls=' + str(inst.get('cls')) if inst.get('cls') in ('two_student_sweep', 'tiny_universe') else 'drawn',
              'pc' if case['pc'] else 'no_pc',
              'maxrank>n1' if o.maxrank > o.n1 else 'maxrank<=n1']
    if o.n2 >= 10:
        labels.append('two_digit_ids')
    if case.get('limit') is not None:
        labels.append('solve_with_time_limit')
    if valid:
        dv = [o.absdiffs(M) for M in valid]
        mx, sm = min(max(x or [0]) for x in dv), min(sum(x) for x in dv)
        if not any(max(x or [0]) == mx and sum(x) == sm for x in dv):
            labels.append('max_and_total_deviation_need_different_matchings')
    if not valid:
        if not out['infeasible']:
            raise Violation('infeasible_not_reported', 'no valid matching exists but brute force '
                            'prints %r' % out['values'])
        return Result(False, labels + ['infeasible'])
    if out['infeasible']:
        raise Violation('feasible_reported_infeasible', '%d valid matchings exist (e.g. %r) but '
                        'brute force prints Infeasible' % (len(valid), valid[0]))
    got = out['values']
    missing = [k for k in restext.BF_KEYS if k not in got]
    if missing:
        raise Violation('lines_missing', 'brute-force output lacks %r' % missing)
    want, top, prof_top, maxsize = expected_values(o, valid)
    for k in restext.BF_KEYS:
        g, w = got[k], want[k]
        if 'profile' in k and len(g) != o.maxrank:
            raise Violation('profile_length:' + k, '%s = %r has %d entries, the maximum rank is %d'
                            % (k, g, len(g), o.maxrank))
        if (list(g) if isinstance(g, (list, tuple)) else g) != \
                (list(w) if isinstance(w, (list, tuple)) else w):
            raise Violation('wrong_optimum:' + k, '%s printed %r, true optimum %r (%d valid '
                            'matchings, %d of maximum size %d)' % (k, g, w, len(valid), len(top),
                                                                   maxsize))
    if case['diff']:
        labels.append('differential')
        for crit, key, read in DIFF:
            opts = {'twopl': case['twopl'], 'stab': False, 'pc': case['pc'], 'crit': crit,
                    'order': ['f', 'na'] + ['twopl'] * case['twopl'] + ['pc'] * case['pc'] +
                    ['crit%d' % i for i in range(len(crit))]}
            try:
                run = solverio.Run(inst, opts, mode='cbc').solve()
                parsed = run.parsed('short')
            except Violation as v:
                if _lp.owns_exceptions(v):
                    continue
                raise
            if parsed['pulp_status'] != 'Optimal':
                raise Violation('lp_disagrees:' + key, 'brute force finds valid matchings, LP mode '
                                'with %r reports %r' % (crit, parsed['pulp_status']))
            lpv = read(parsed['stats'])
            bfv = got[key][0] if isinstance(got[key], tuple) else got[key]
            if (list(lpv) if isinstance(lpv, list) else lpv) != \
                    (list(bfv) if isinstance(bfv, list) else bfv):
                raise Violation('lp_disagrees:' + key, 'brute force %s = %r, LP mode with %r '
                                'reaches %r' % (key, got[key], crit, lpv))
    if maxsize == 0:
        labels.append('only_empty_matching')
    nt = len({tuple(p) for p in prof_top}) >= 2
    return Result(nt, labels, {'valid_matchings': len(valid)})


MANIFEST = {
    'technique': 'property-based differential testing: brute-force mode vs a definition-level '
                 'enumeration oracle, and vs the LP mode on the real CBC solver',
    'text': 'For generated small instances (with/without -pc and -twopl, max rank below and '
            'above the number of students, instances whose only valid matching is empty) every '
            'optimal_* line of the brute-force output is compared with the optimum recomputed by '
            'the reference model over all valid matchings; 12% of the cases also run the LP '
            'pipeline with the corresponding criteria sequences on CBC and compare. Exploration.',
    'note': 'Trusted: reference model; reading of "most generous"/"most greedy" as the '
            'lexicographic orders used by the documented criteria.',
}
MANIFEST['text'] += (' ' + 'An exhaustive sweep covers two students with two usable projects each at every pair of ranks up to 6/7, every clash pattern and three id layouts; shapes: contention (capacity-one projects), long lists with few students, ids >= 10, capacities exactly filled by first choices under heavy ties.')
MANIFEST['text'] += (' ' + '6% of the cases are load-conflict instances (least maximum and least total lecturer deviation on different matchings); brute-force solves are given drawn time limits (0, 1e-6, 5, 3600), which must not matter; the thorough tier enumerates the complete universe of 2 students x 2 projects x 2 lecturers (294 912 instances).')
