"""C04 - several criteria compose lexicographically in the user-given (position) order.

Oracle: sequential filtering of the enumerated feasible set in position order
(refmodel.Oracle.lexopt); metamorphic relation: a different flag permutation
gives the same key vector and the same order of '- optimisation:' lines.
"""
from hypothesis import strategies as st

from .. import solverio, strategies
from ..common import Result, Violation
from ..strategies import pct
from . import _lp
from .c03 import check_optimum

ID = 'C04'
LEVEL = 'exploration'
ENGINE = 'hypothesis + exact enumerating MILP back end (adversarial choice) + CBC sample'
RULE = ('case = (instance, 2..9 criteria with distinct positions in 1..9 and gaps, drawn '
        'arguments, two independent flag permutations, -pc/-stab, choice list); half of the '
        'cases use a conflicting pair (maxsize/mincost, greedy/generous, minsize/greedy, '
        'lsb/maxsize, ...); non-trivial = some later criterion is constrained by an earlier one '
        '(its lexicographic optimum differs from its unconstrained optimum); distinct = distinct case')
ASSUMPTIONS = [
    'only value vectors are compared: ties between matchings are free',
    'small scope: <= 4/5 students, <= 3/4 projects',
]

CONFLICTS = [('maxsize', 'mincost'), ('mincost', 'maxsize'), ('gre', 'gen'), ('gen', 'gre'),
             ('minsize', 'gre'), ('lsb', 'maxsize'), ('maxsize', 'lsb'), ('lmb', 'mincost'),
             ('maxsize', 'gen'), ('maxsize', 'gre'), ('minsqcost', 'maxsize'),
             ('mincostlsb', 'maxsize'), ('maxsize', 'minsqcost'), ('gre', 'maxsize'),
             # two criteria that measure (nearly) the same quantity, requested together
             ('lsb', 'lmb'), ('lsb', 'lmb'), ('lmb', 'lsb'), ('mincostlsb', 'lmb'),
             ('mincostlsb', 'lsb'), ('lsb', 'mincostlsb'), ('mincost', 'minsqcost'),
             ('minsqcost', 'mincost'), ('gen', 'mincost'), ('maxsize', 'lmb')]

LINE_OF = {'maxsize': 'maximising size', 'minsize': 'minimising size',
           'gen': 'generous up to position', 'gre': 'greedy up to position',
           'mincost': 'minimising sum of ranks', 'minsqcost': 'minimising sum of square of ranks',
           'lmb': 'load max balanced', 'lsb': 'load sum balanced',
           'mincostlsb': 'minimising costs with lecturer load balancing'}


def line_to_crit(line):
    best = None
    for name, prefix in LINE_OF.items():
        if line.startswith(prefix) and (best is None or len(prefix) > len(LINE_OF[best])):
            best = name
    return best


def budget(tier):
    return 8000 if tier == 'quick' else 250000


@st.composite
def _scale_cases(draw, tier):
    """Large instances on real CBC with the prefix-consistency oracle (no enumeration): the
    value an earlier criterion reaches in the full run must equal the value it reaches when the
    run stops after it.  Half of them are 'deep' instances whose cost values exceed 10^4."""
    salt = draw(strategies.salts)
    if draw(st.booleans()):
        L = draw(st.sampled_from([12, 15, 16]))
        m = draw(st.sampled_from([40, 45, 50, 70]))
        e = draw(st.sampled_from([1, 2, 3]))
        n1 = m + e
        prefs = [[[p] for p in range(1, L + 1)] for _ in range(n1)]
        puq = [e] + [0] * (L - 2) + [m]
        plq = [0] * (L - 1) + [m]
        inst = {'na': 2, 'n1': n1, 'n2': L, 'n3': L, 'prefs': prefs, 'plq': plq, 'puq': puq,
                'plec': list(range(1, L + 1)), 'llq': list(plq), 'lt': list(puq),
                'luq': list(puq), 'lprefs': None, 'cls': 'deep'}
        names = draw(st.sampled_from([['minsqcost', 'maxsize'], ['mincost', 'maxsize'],
                                      ['minsqcost', 'gre'], ['minsqcost', 'maxsize', 'gre'],
                                      ['maxsize', 'minsqcost'], ['mincost', 'gre']]))
    else:
        inst = draw(strategies.instances(_lp.LARGE[tier]))
        names = list(draw(st.permutations(strategies.CRIT_NAMES)))[:draw(st.sampled_from([2, 3]))]
    crit = []
    for k, n in enumerate(names):
        crit.append([n, k + 1 + draw(st.sampled_from([0, 0, 1])) * 0, []])
    positions = sorted(draw(st.permutations(list(range(1, 10))))[:len(names)])
    for c, p in zip(crit, positions):
        c[1] = p
    twopl = inst['lprefs'] is not None
    flags = ['f', 'na'] + ['twopl'] * twopl + ['crit%d' % i for i in range(len(crit))]
    opts = {'twopl': twopl, 'stab': False, 'pc': False, 'crit': crit,
            'order': list(draw(st.permutations(flags)))}
    return {'kind': 'scale', 'inst': inst, 'opts': opts, 'choices': [], 'mode': 'cbc',
            'salt': salt, 'order2': opts['order']}


def run_scale(case):
    from .. import refmodel
    inst, opts = case['inst'], case['opts']
    o = refmodel.Oracle(inst, opts['twopl'], False)
    criteria = strategies.ordered_criteria(opts)

    def run(ncrit):
        sub = sorted(opts['crit'], key=lambda c: c[1])[:ncrit]
        keep = {id(c) for c in sub}
        idx = [i for i, c in enumerate(opts['crit']) if id(c) in keep]
        o2 = dict(opts, crit=[opts['crit'][i] for i in idx],
                  order=[f for f in opts['order'] if not f.startswith('crit')] +
                  ['crit%d' % k for k in range(len(idx))])
        r = solverio.Run(inst, o2, mode='cbc').solve()
        return r.parsed('short')
    try:
        full = run(len(criteria))
    except Violation as v:
        if _lp.owns_exceptions(v):
            return Result(False, ['kind=scale', 'skipped:exception'])
        raise
    labels = ['kind=scale', 'cls=' + inst.get('cls', '?'), 'status=' + str(full['pulp_status'])]
    if full['pulp_status'] != 'Optimal' or full['matching'] is None:
        return Result(False, labels)
    M = full['matching']
    if not o.valid(M):
        return Result(False, labels + ['skipped:invalid_matching'])      # C01's statement
    keys = [o.key(n, a, M) for n, a in criteria]
    big = False
    for k in range(1, len(criteria)):
        part = run(k)
        if part['pulp_status'] != 'Optimal' or part['matching'] is None:
            raise Violation('prefix_status', 'criteria %r are Optimal together but the prefix of '
                            'length %d is %r' % ([c[0] for c in criteria], k, part['pulp_status']))
        pk = [o.key(n, a, part['matching']) for n, a in criteria[:k]]
        if pk != keys[:k]:
            j = next(i for i in range(k) if pk[i] != keys[i])
            raise Violation('later_criterion_worsens_earlier:' + criteria[j][0],
                            'criterion %d (%s) reaches %r when the run stops after criterion %d, '
                            'but %r in the full run %r (instance with %d students)'
                            % (j + 1, criteria[j][0], pk[j], k, keys[j],
                               [c[0] for c in criteria], inst['n1']))
        if any(isinstance(x, int) and abs(x) >= 10000 for x in pk):
            big = True
    if big:
        labels.append('values>=10^4')
    return Result(True, labels)


@st.composite
def _cases(draw, tier):
    if pct(draw) < 6:
        return draw(_scale_cases(tier))
    mode = 'cbc' if pct(draw) < 7 else ('both' if tier == 'thorough' and pct(draw) < 8 else 'eb')
    salt = draw(strategies.salts)
    conflict = pct(draw) < 50
    force_pc = False
    inst = draw(strategies.instances(strategies.SIZES[tier]))
    if conflict:
        pair = list(draw(st.sampled_from(CONFLICTS)))
        if all(n in ('lsb', 'lmb', 'mincostlsb') for n in pair):
            # load criteria discriminate when targets cannot all be met: several lecturers
            # (or hospitals) whose targets sit at their upper quotas
            inst = draw(strategies.instances(strategies.SIZES[tier], cls=draw(st.sampled_from(
                ['generic', 'shared_tight', 'more_lecturers', 'two_agent', 'zero_capacity'])),
                min_len=draw(st.sampled_from([1, 2]))))
            if inst['na'] == 3 and pct(draw) < 70:
                inst['lt'] = [u if pct(draw) < 70 else t for t, u in zip(inst['lt'], inst['luq'])]
        elif any(n in ('lsb', 'lmb', 'mincostlsb') for n in pair) and inst['na'] == 3 \
                and pct(draw) < 40:
            strategies.load_tradeoff(draw, inst)
            force_pc = True
        extra = draw(st.sampled_from([0, 0, 1, 2]))
        others = [n for n in draw(st.permutations(strategies.CRIT_NAMES)) if n not in pair]
        names = pair + others[:extra]
        opts = draw(strategies.option_sets(inst, min_crit=len(names), max_crit=len(names),
                                           names=names, pc=True if force_pc else None))
        # keep the conflicting pair in the drawn relative order: lower position first
        crit = {c[0]: c for c in opts['crit']}
        if crit[pair[0]][1] > crit[pair[1]][1]:
            crit[pair[0]][1], crit[pair[1]][1] = crit[pair[1]][1], crit[pair[0]][1]
    else:
        opts = draw(strategies.option_sets(inst, min_crit=2, max_crit=draw(
            st.sampled_from([2, 3, 4, 9]))))
    order2 = list(draw(st.permutations(opts['order'])))
    choices = draw(strategies.choice_lists) if mode != 'cbc' else []
    decoy = _lp.draw_decoy(draw, inst)
    _ret = {'inst': inst, 'opts': opts, 'order2': order2, 'choices': choices, 'mode': mode, 'salt': salt}
    return _lp.attach_decoy(_ret, decoy)


def strategy(tier):
    return _cases(tier)


describe = solverio.describe_case


def check_lines(c, criteria, which):
    lines = c.short['optimisations']
    got = [line_to_crit(l) for l in lines]
    want = [n for n, a in criteria]
    if c.short['pulp_status'] == 'Optimal':
        if got != want:
            raise Violation('optimisation_order', '%s: "- optimisation:" lines %r, criteria in '
                            'position order %r' % (which, lines, want))
    elif got != want[:len(got)]:
        raise Violation('optimisation_order', '%s: "- optimisation:" lines %r are not a prefix '
                        'of the position order %r' % (which, lines, want))


def run_case(case):
    if case.get('kind') == 'scale':
        return run_scale(case)
    try:
        c = _lp.run_lp(case, want_long=False)
    except Violation as v:
        if _lp.owns_exceptions(v):
            return Result(False, ['skipped:' + v.facet.split(':')[0]])
        raise
    o = c.oracle
    criteria = c.criteria
    feas, best, vec = check_optimum(c, criteria)
    check_lines(c, criteria, 'first run')
    labels = _lp.base_labels(c, case)
    # metamorphic: same positions, different flag permutation
    opts2 = dict(case['opts'], order=case['order2'])
    case2 = dict(case, opts=opts2)
    try:
        c2 = _lp.run_lp(case2, want_long=False)
    except Violation as v:
        if _lp.owns_exceptions(v):
            return Result(False, labels + ['skipped:second_run'])
        raise
    if c2.short['pulp_status'] != c.short['pulp_status']:
        raise Violation('flag_order_changes_status', 'flag order %r gives %r, flag order %r gives %r'
                        % (case['opts']['order'], c.short['pulp_status'], case['order2'],
                           c2.short['pulp_status']))
    if c2.short['optimisations'] != c.short['optimisations']:
        raise Violation('flag_order_changes_order', 'flag order %r reports %r, flag order %r reports %r'
                        % (case['opts']['order'], c.short['optimisations'], case['order2'],
                           c2.short['optimisations']))
    if feas:
        M2 = c2.short['matching']
        if M2 is None or not o.valid(M2):
            raise Violation('flag_order_changes_result', 'second flag order reports %r' % (M2,))
        got2 = [o.key(n, a, M2) for n, a in criteria]
        if got2 != vec:
            raise Violation('flag_order_changes_values', 'flag order %r reaches key vector %r, '
                            'flag order %r reaches %r' % (case['opts']['order'], vec,
                                                          case['order2'], got2))
    if not feas:
        return Result(False, labels + ['infeasible'])
    constrained = False
    for k in range(1, len(criteria)):
        n, a = criteria[k]
        if min(o.key(n, a, X) for X in feas) != vec[k]:
            constrained = True
            labels.append('constrained=' + n)
    pos = [p for n, p, e in sorted(case['opts']['crit'], key=lambda x: x[1])]
    if any(b - a > 1 for a, b in zip(pos, pos[1:])) or pos[0] != 1:
        labels.append('position_gaps')
    flag_seq = [int(f[4:]) for f in case['opts']['order'] if f.startswith('crit')]
    by_pos = [i for i, cr in sorted(enumerate(case['opts']['crit']), key=lambda x: x[1][1])]
    if flag_seq != by_pos:
        labels.append('flag_order!=position_order')
    return Result(constrained, labels, {'solves': len(c.records) + len(c2.records)})


MANIFEST = {
    'technique': 'property-based testing; lexicographic optimum by sequential filtering of the '
                 'enumerated feasible set; metamorphic flag-permutation relation',
    'text': 'Generated (instance, 2-9 criteria with positions and gaps, flag permutation) cases: '
            'the key vector of the printed matching and of every solution in the final '
            'LpProblem\'s optimal set must equal the lexicographic optimum computed by the '
            'reference model; the "- optimisation:" lines must follow position order; a second '
            'run with another flag permutation must give the same vector and lines. '
            'Small-scope exploration.',
    'note': 'Trusted: reference model keys and lexopt; enumerating back end (cross-checked '
            'against CBC in the thorough tier).',
}
MANIFEST['text'] += (' ' + "6% of the cases are large or 'deep' instances (cost values above 10^4) on real CBC, checked with the prefix-consistency relation: the value an earlier criterion reaches in the full run equals the value it reaches when the run stops after it. Cases may carry decoy objects or earlier solves.")
MANIFEST['text'] += (' ' + 'Conflicting pairs include criteria that measure nearly the same quantity (lsb/lmb/mincostlsb, mincost/minsqcost), on instances whose lecturer targets cannot all be met.')
