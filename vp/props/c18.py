"""C18 - result getters are read-only and re-solving is reproducible.

Model-based history testing: a history is a drawn sequence over {solve,
get_results, get_results_short, get_results_long, get_debug} starting with
solve, applied to one Solver object.  Model: per epoch (= since the last
solve) the first text each getter returned; invariant after every step: the
getter returns exactly that text again; after every solve: same status, same
value of every requested criterion, valid matching (LP mode) / same optimal_*
lines (brute-force mode).  Every solve is served by the enumerating back end
with a different adversarial choice, so a re-solve is free to return another
optimal matching.
"""
import os

from hypothesis import strategies as st

from .. import refbackend, refmodel, restext, solverio, strategies
from ..common import Result, Violation, call_repo
from ..strategies import pct, uni
from . import _lp

ID = 'C18'
LEVEL = 'exploration'
ENGINE = 'hypothesis-generated operation histories against a per-epoch memo model'
RULE = ('case = (instance, option set incl. -bf on small instances, history of 2..25 operations '
        'starting with solve, adversarial choices per solve, back end); non-trivial = the '
        'history has >= 2 solves and some getter is called twice within one epoch with a '
        'different getter in between; distinct = distinct case')
ASSUMPTIONS = [
    'timing values may differ between epochs and are only required to be stable within an epoch',
    'criterion values are compared between epochs, not matchings (any optimal matching is allowed)',
]
GETTERS = ['results', 'short', 'long', 'debug']


def budget(tier):
    return 8000 if tier == 'quick' else 150000


@st.composite
def _cases(draw, tier):
    bf = pct(draw) < 15
    mode = 'cbc' if pct(draw) < (6 if tier == 'quick' else 10) else 'eb'
    salt = draw(strategies.salts)
    n_ops = draw(st.sampled_from([2, 3, 5, 8, 12, 18, 25]))
    threads = draw(st.sampled_from([None, None, 1, 2]))
    odd_targets = pct(draw) < 15
    inst = draw(strategies.instances(strategies.SIZES['quick']))
    if odd_targets and inst['na'] == 3:
        # targets are free text in a hand-written file: also outside [lower, upper quota]
        # (only self-consistency between calls and solves is checked here, no enumeration)
        inst['lt'] = [draw(st.sampled_from([0, 1, 2, 3, 5])) for _ in range(inst['n3'])]
    else:
        odd_targets = False
    opts = draw(strategies.option_sets(inst, max_crit=0 if bf else 3,
                                       stab=False if bf else None))
    ops = ['solve']
    for _ in range(n_ops - 1):
        ops.append(draw(st.sampled_from(['solve', 'results', 'short', 'long', 'debug',
                                         'results', 'short', 'long', 'debug', 'other',
                                         'solve', 'results', 'short', 'long', 'debug',
                                         'results', 'short', 'long', 'debug', 'touch_file',
                                         'solve_cut', 'solve_cut'])))
    cut = [draw(st.sampled_from([0, 0, 1, 2, 3])),
           draw(st.sampled_from(['NotSolved', 'NotSolved', 'NotSolved', 'Infeasible',
                                 'Undefined']))]
    # solve(timeLimit=...) of the successive solves (cyclic) and the steps of the owned clock:
    # a limit may be met by one solve and long exceeded when a later solve runs without one
    limits = draw(st.lists(st.sampled_from([None, None, None, 5, 60, 3600]), min_size=1,
                           max_size=4))
    steps = draw(st.lists(st.sampled_from([1, 2, 400, 3000, 30000]), min_size=1, max_size=3))
    touch = draw(st.sampled_from(['sibling', 'sibling', 'delete', 'garbage']))
    sib = draw(strategies.siblings(inst)) if touch == 'sibling' else None
    other = draw(strategies.option_sets(inst, max_crit=2, stab=False if bf else None))
    return {'inst': inst, 'opts': opts, 'bf': bf, 'ops': ops, 'salt': salt, 'mode': mode,
            'other_opts': other, 'threads': threads, 'odd_targets': odd_targets,
            'limits': limits, 'steps': steps, 'touch': touch, 'touch_inst': sib, 'cut': cut,
            'choices': draw(strategies.choice_lists)}


def strategy(tier):
    return _cases(tier)


describe = solverio.describe_case


def _summary_lp(text, o, criteria):
    p = restext.parse_results(text)
    out = {'status': p['pulp_status'], 'timeout': p['timeout']}
    if p['pulp_status'] == 'Optimal' and p['timeout'] is None:
        M = p['matching']
        if M is None:
            raise Violation('no_matching', 'status Optimal but no matching line')
        why = o.why_invalid(M)
        if why:
            raise Violation('resolve_invalid_matching', 'matching %r: %s' % (M, why))
        out['keys'] = [o.key(n, a, M) for n, a in criteria]
    return out


def run_case(case):
    from .. import faults
    with faults.owned_clock(faults.Clock(case.get('steps') or [1])):
        return _run_case(case)


def _run_case(case):
    inst, opts, bf = case['inst'], case['opts'], case['bf']
    text = refmodel.render(inst)
    path = solverio.write_instance(text)
    argv = strategies.build_argv(opts, path, inst['na'], bf=bf)
    solver = solverio.make_solver(argv)
    o = refmodel.Oracle(inst, opts['twopl'], opts['pc'])
    criteria = strategies.ordered_criteria(opts)
    fns = {'results': solver.get_results, 'short': solver.get_results_short,
           'long': solver.get_results_long, 'debug': solver.get_debug}
    state = {'memo': {}, 'epoch': 0, 'first': None, 'seen': [], 'interleaved': False,
             'comparable': True, 'labels': set()}
    limits = case.get('limits') or [None]

    def call_getter(op, where):
        try:
            txt = call_repo('getter', fns[op])
        except Violation as v:
            raise Violation('getter_raises:' + op, '%s (bf=%s): %s' % (where, bf, v.detail),
                            exc=v.exc)
        if not isinstance(txt, str):
            raise Violation('getter_not_text', '%s returned %r' % (where, type(txt)))
        memo, seen = state['memo'], state['seen']
        if op in memo:
            if txt != memo[op]:
                k = _firstdiff(txt, memo[op])
                raise Violation('getter_not_idempotent:' + op,
                                '%s: text differs from the earlier call in the same epoch; first '
                                'difference at char %d: %r vs %r' % (
                                    where, k, memo[op][max(0, k - 30):][:80],
                                    txt[max(0, k - 30):][:80]))
            if any(x != op for x in seen[seen.index(op):]):
                state['interleaved'] = True
        else:
            memo[op] = txt
        seen.append(op)
        return txt

    def close_epoch(where):
        """End of an epoch (just before the next solve / at the end of the history): the
        status, criterion values and validity of this solve are compared with solve 1.  The
        results getter is called here and not right after solve(), so that the order in which
        the history calls the getters is really the order the object sees."""
        if state['epoch'] == 0:
            return
        res = call_getter('results', where + ' [summary of solve %d]' % state['epoch'])
        if not state['comparable']:
            # this solve was given a time limit and the run (counted from the construction of
            # the object, as the solver does) exceeded it: it is a cut-short run (C14), not a
            # reproduction of solve 1
            state['labels'].add('epoch_over_its_limit')
            return
        if bf:
            cur = restext.parse_bf(res)
            cur = (cur['infeasible'], cur['values'])
        else:
            cur = _summary_lp(res, o, criteria)
        if state['first'] is None:
            state['first'] = cur
        elif cur != state['first']:
            raise Violation('resolve_differs_bf' if bf else 'resolve_differs',
                            '%s: solve %d gives %r, solve 1 gave %r'
                            % (where, state['epoch'], cur, state['first']))

    for step, op in enumerate(case['ops']):
        where = 'step %d (%s) of history %r' % (step + 1, op, case['ops'])
        if op == 'touch_file':
            # the instance file changes on disk after the object was constructed: the object
            # works on the instance it read
            kind = case.get('touch')
            if kind == 'delete':
                if os.path.exists(path):
                    os.unlink(path)
            elif kind == 'garbage':
                with open(path, 'w') as f:
                    f.write('not an instance\n')
            else:
                with open(path, 'w') as f:
                    f.write(refmodel.render(case['touch_inst']))
            state['labels'].add('file_' + str(kind))
            continue
        if op == 'other':
            # another Solver object on the same file is created, solved and read; the object
            # under test must not notice
            try:
                o2 = solverio.make_solver(strategies.build_argv(case['other_opts'], path,
                                                                inst['na']))
                with refbackend.Backend('eb' if case.get('mode') != 'cbc' else 'cbc',
                                        case['choices'], salt=(case['salt'] + 3 * step) % 60):
                    o2.solve(msg=False, timeLimit=None, threads=None, write=False)
                o2.get_results_long()
            except (Violation, Exception):
                pass
            continue
        if op in ('solve', 'solve_cut'):
            close_epoch(where)
            state['epoch'] += 1
            state['memo'] = {}
            state['seen'] = []
            fired = []
            hook = None
            if op == 'solve_cut' and not bf:
                # one underlying solve of this run ends without a proven optimum (a cut-short
                # run, C14): nothing of it may influence the solves that follow
                from pulp import constants as _c

                def hook(backend, lp, rec, cut=case.get('cut') or [0, 'NotSolved']):
                    if rec.index == cut[0]:
                        for v in lp.variables():
                            v.varValue = 0.0
                        st_ = {'NotSolved': (_c.LpStatusNotSolved, _c.LpSolutionNoSolutionFound),
                               'Infeasible': (_c.LpStatusInfeasible, _c.LpSolutionInfeasible),
                               'Undefined': (_c.LpStatusUndefined,
                                             _c.LpSolutionNoSolutionFound)}[cut[1]]
                        lp.assignStatus(*st_)
                        fired.append(cut[1])
            be = refbackend.Backend(case.get('mode', 'eb'), case['choices'],
                                    salt=(case['salt'] + 7 * state['epoch']) % 60, hook=hook)
            T = limits[(state['epoch'] - 1) % len(limits)]
            try:
                with be:
                    call_repo('solve()', solver.solve, msg=False, timeLimit=T,
                              threads=case.get('threads'), write=False)
            except Violation as v:
                raise Violation('solve_raises' if state['epoch'] > 1 else 'first_solve_raises',
                                '%s: %s' % (where, v.detail), exc=v.exc)
            state['comparable'] = True
            if fired:
                state['comparable'] = False
                state['labels'].add('cut_solve_in_history')
            elif T is not None:
                state['labels'].add('solve_with_limit')
                try:
                    m = solver.model
                    total = (m.time_after_solve - m.time_start).total_seconds()
                    state['comparable'] = total <= T
                except Exception:
                    state['comparable'] = False
            elif state['epoch'] > 1 and any(x is not None for x in limits):
                state['labels'].add('solve_without_limit_after_limited')
            continue
        call_getter(op, where)
    close_epoch('end of history %r' % (case['ops'],))
    nsolves = case['ops'].count('solve') + case['ops'].count('solve_cut')
    labels = ['other_solver_object'] * ('other' in case['ops']) + [
        'bf' if bf else 'lp', 'mode=' + case.get('mode', 'eb'),
        'solves=%d' % min(nsolves, 4), 'len=%d' % len(case['ops']),
        'threads=%r' % (case.get('threads'),)]
    labels += sorted(state['labels'])
    if case.get('odd_targets'):
        labels.append('targets_outside_quotas')
    if state['first'] is not None and not bf and state['first'].get('status') != 'Optimal':
        labels.append('non_optimal_run')
    labels += [l for l in strategies.instance_labels(inst, opts) if l.startswith('-')]
    return Result(nsolves >= 2 and state['interleaved'], labels,
                  {'operations': len(case['ops'])})


def _firstdiff(a, b):
    for i, (x, y) in enumerate(zip(a, b)):
        if x != y:
            return i
    return min(len(a), len(b))


MANIFEST = {
    'technique': 'model-based history testing: generated operation sequences over the Solver '
                 'API, per-epoch memo model, invariant checked after every step',
    'text': 'Generated histories over {solve, get_results, get_results_short, get_results_long, '
            'get_debug} (2-25 operations, starting with solve, LP and brute-force mode, all '
            'option sets) are applied to one Solver object; after every getter call the text '
            'must equal the first text that getter returned since the last solve, and after '
            'every solve the status, the value of every requested criterion and the validity of '
            'the matching must equal those of the first solve, while the enumerating back end '
            'deliberately returns a different optimal solution each time. Exploration.',
    'note': 'Trusted: reference model; enumerating back end. Hypothesis\' RuleBasedStateMachine '
            'was not needed: a history is one drawn list, shrinks as one value and is replayed '
            'from JSON without the library.',
}
MANIFEST['text'] += (' ' + "Histories also contain the operation 'other' (a second Solver on the same file is created, solved and read); the status/criterion summary of a solve is read when its epoch ends, so the order of getter calls in the history is the order the object sees; threads in {None, 1, 2}; 15% of the cases have lecturer targets outside their quotas.")
MANIFEST['text'] += (' ' + 'Each solve of a history has a drawn time limit (None, 5, 60, 3600 s) under an owned clock: a solve that exceeds its own limit is a cut-short run and is not compared, every other solve must reproduce solve 1 (a limit met earlier must not stick); the operation touch_file rewrites or deletes the instance file after construction.')
MANIFEST['text'] += (' ' + 'The operation solve_cut is a solve in which one underlying solve is made to end Not Solved / Infeasible / Undefined: that epoch is a cut-short run, the solves after it must again reproduce solve 1.')
