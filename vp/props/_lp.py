"""Shared driver for the properties that run the LP mode on a generated
(instance, option set, choice list) case: C01-C05, C11."""
from hypothesis import strategies as st

from .. import refmodel, solverio, strategies
from ..common import HarnessError, Result, Violation
from ..strategies import pct


class Ctx(object):
    pass


def owns_exceptions(v):
    return v.facet.startswith('exception:') or v.facet == 'refused_admissible'


def run_lp(case, want_long=True):
    """Runs the repository on the case and gathers everything the oracles need."""
    inst, opts = case['inst'], case['opts']
    c = Ctx()
    c.inst, c.opts = inst, opts
    c.oracle = refmodel.Oracle(inst, opts['twopl'], opts['pc'])
    c.criteria = strategies.ordered_criteria(opts)
    c.run = solverio.Run(inst, opts, case.get('mode', 'eb'), case.get('choices', ()),
                         noise=case.get('noise'), salt=case.get('salt', 0), threads=case.get('threads'),
                         decoy=case.get('decoy'),
                         presolves=case.get('presolves', 0)).solve()
    c.records = c.run.backend.records
    c.short_text = c.run.results('short')
    c.short = solverio.restext.parse_results(c.short_text)
    if want_long:
        c.long_text = c.run.results('long')
        c.long = solverio.restext.parse_results(c.long_text)
    return c


def feasible_set(c):
    """Oracle feasible set for the case's constraints (validity [+ stability])."""
    if not hasattr(c, '_feasible'):
        c._feasible = c.oracle.feasible(stab=c.opts['stab'])
    return c._feasible


def valid_set(c):
    if not hasattr(c, '_valid'):
        c._valid = [M for M in c.oracle.assignments() if c.oracle.valid(M)] \
            if c.opts['stab'] else feasible_set(c)
    return c._valid


def reported_matching(c):
    """The matching of the short text (None when the run is not Optimal);
    checks that the long text shows the same one."""
    M = c.short['matching']
    if hasattr(c, 'long') and c.long['matching'] != M:
        raise Violation('short_long_differ', 'short text shows matching %r, long text %r'
                        % (M, c.long['matching']))
    return M


LARGE = {'quick': dict(n1=8, n2=13, n2min=10, n3=12, lmax=6),
         'thorough': dict(n1=12, n2=24, n2min=10, n3=14, lmax=8)}


@st.composite
def embedded_instances(draw, **kw):
    """A tiny instance embedded under sparse two-digit ids (strategies.embed)."""
    tiny = draw(strategies.instances(strategies.SIZES['tiny'], **kw))
    m = draw(strategies.id_maps(tiny))
    return strategies.embed(tiny, m['smap'], m['pmap'], m['lmap'])[0]


def attach_decoy(case, decoy):
    if decoy and decoy.get('opts') is None and 'inst' in decoy:
        decoy['opts'] = case['opts']
    if decoy and 'presolves' in decoy:
        case['presolves'] = decoy['presolves']
    elif decoy:
        case['decoy'] = decoy
    return case


def draw_decoy(draw, inst, pct_=12):
    """With probability pct_: an independent option set for a second Solver object on the
    same file, created between construction and solve of the Solver under test."""
    if pct(draw) >= pct_:
        return None
    solve = draw(st.booleans())
    if draw(st.booleans()):
        # variant: no second object, but earlier solve() calls on the object under test
        return {'presolves': draw(st.sampled_from([1, 1, 2]))}
    if draw(st.booleans()):
        # the second object works on a sibling instance (same agents and lists, other
        # capacities / targets / second-side orders) with the same options
        return {'opts': None, 'solve': True, 'inst': draw(strategies.siblings(inst))}
    return {'opts': draw(strategies.option_sets(inst)), 'solve': solve}


@st.composite
def lp_cases(draw, tier, cbc_pct=8, inst_kw=None, opt_kw=None, sizes=None, large_pct=0):
    if large_pct and pct(draw) < large_pct:
        # two-digit ids, long lists: only oracles that need no enumeration apply (real CBC)
        salt = draw(strategies.salts)
        k = pct(draw)
        if k < 40:
            inst = draw(strategies.instances(LARGE[tier], **(inst_kw or {})))
        elif k < 85:
            inst = draw(embedded_instances(**(inst_kw or {})))
        else:
            inst = draw(strategies.crowd_instances(
                two_sided=(inst_kw or {}).get('two_sided', draw(st.booleans()))))
        opts = draw(strategies.option_sets(inst, **(opt_kw or {})))
        return {'inst': inst, 'opts': opts, 'choices': [], 'mode': 'cbc', 'salt': salt,
                'large': True}
    sizes = sizes or strategies.SIZES[tier]
    # mixture knobs are drawn first: Hypothesis' generation-time mutation skews
    # draws that come late in a long choice sequence (measured; see DESIGN.md 2.2)
    mode = 'cbc' if pct(draw) < cbc_pct else 'eb'
    salt = draw(strategies.salts)
    inst = draw(strategies.instances(sizes, **(inst_kw or {})))
    opts = draw(strategies.option_sets(inst, **(opt_kw or {})))
    choices = draw(strategies.choice_lists) if mode == 'eb' else []
    case = {'inst': inst, 'opts': opts, 'choices': choices, 'mode': mode, 'salt': salt}
    attach_decoy(case, draw_decoy(draw, inst))
    return case


def base_labels(c, case):
    L = strategies.instance_labels(c.inst, c.opts)
    L.append('mode=' + case.get('mode', 'eb'))
    L.append('status=' + str(c.short['pulp_status']))
    if case.get('decoy'):
        L.append('decoy_solver_object' + ('_sibling_instance' if case['decoy'].get('inst') else
                                          ('_solved' if case['decoy'].get('solve') else '')))
    if case.get('presolves'):
        L.append('earlier_solves_on_same_object')
    return L
