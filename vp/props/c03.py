"""C03 - each optimisation criterion optimises the quantity it is documented to optimise.

Exactly one criterion per case.  Oracle: min over the enumerated feasible set of
the criterion's key (refmodel.Oracle.key).
"""
from hypothesis import strategies as st

from .. import solverio, strategies
from ..common import Result, Violation
from ..strategies import pct
from . import _lp

ID = 'C03'
LEVEL = 'exploration'
ENGINE = 'hypothesis + exact enumerating MILP back end (adversarial choice) + CBC sample'
RULE = ('case = (instance, ONE criterion with a drawn admissible argument vector, -pc/-stab/'
        '-twopl, choice list, back end); every criterion gets an equal share; non-trivial = the '
        'feasible set contains matchings with at least two different values of the criterion '
        '(the criterion discriminates); distinct = distinct case')
ASSUMPTIONS = [
    'documented meaning of the criteria as transcribed in refmodel.Oracle.key (README + property text)',
    'any matching attaining the optimal value is accepted',
    'small scope: <= 4/5 students, <= 3/4 projects',
]

STAT_OF = {'maxsize': 'size', 'minsize': 'size', 'gen': 'profile', 'gre': 'profile',
           'mincost': 'cost', 'minsqcost': 'cost_sq', 'lmb': 'max_lec_abs_diff',
           'lsb': 'sum_lec_abs_diff', 'mincostlsb': None}


def budget(tier):
    return 12000 if tier == 'quick' else 300000


@st.composite
def _cases(draw, tier):
    if pct(draw) < 6:
        # solver parameters must not change the optimum: the same case is solved by real CBC
        # with threads=None and with an explicit number of threads, on instances (too large to
        # enumerate) whose LP relaxation is fractional: stability with ties on both sides
        salt = draw(strategies.salts)
        name = draw(st.sampled_from(['minsize', 'mincost', 'gre', 'minsqcost', 'maxsize', 'gen',
                                     'lsb', 'mincostlsb']))
        inst = draw(strategies.instances(dict(n1=12, n2=8, n2min=4, n3=5, lmax=5), two_sided=True,
                                         cls=draw(st.sampled_from(['generic', 'two_agent',
                                                                   'heavy_ties', 'shared_tight'])),
                                         min_len=2))
        opts = draw(strategies.option_sets(inst, min_crit=1, max_crit=1, names=[name],
                                           twopl=True, stab=draw(st.sampled_from([True, True,
                                                                                   False])),
                                           pc=False))
        return {'kind': 'params', 'inst': inst, 'opts': opts, 'choices': [], 'mode': 'cbc',
                'salt': salt, 'threads': draw(st.sampled_from([1, 2, 4]))}
    mode = 'cbc' if pct(draw) < 9 else ('both' if tier == 'thorough' and pct(draw) < 10 else 'eb')
    salt = draw(strategies.salts)
    name = draw(st.sampled_from(strategies.CRIT_NAMES))
    kw = {}
    if name in ('lmb', 'lsb', 'mincostlsb'):
        kw['na'] = draw(st.sampled_from([3, 3, 3, 2]))
    forced = name in ('mincost', 'minsqcost', 'mincostlsb', 'minsize', 'gen') and pct(draw) < 60
    if forced:
        # minimising criteria are trivially optimised by the empty matching unless lower
        # quotas or stability force students in: make those the common case
        kw['cls'] = draw(st.sampled_from(['lower_quotas', 'lower_quotas', 'two_agent', 'generic']))
        kw['min_len'] = draw(st.sampled_from([1, 2, 3]))
    inst = draw(strategies.instances(strategies.SIZES[tier], **kw))
    if name in ('maxsize', 'minsize', 'gen', 'gre', 'mincost') and pct(draw) < 12:
        # -stab on an instance whose stable matchings have different sizes
        inst = draw(strategies.size_gadget_instances())
        kw['cls'] = 'size_gadget'
        forced = True
    if forced and kw['cls'] != 'lower_quotas' and inst['lprefs'] is None:
        forced = False
    lecmult = (name in ('mincost', 'minsqcost') and inst['lprefs'] is not None
               and pct(draw) < 50)
    want_stab = True if (forced and kw['cls'] != 'lower_quotas') else None
    if lecmult and kw.get('cls') != 'lower_quotas' and pct(draw) < 70:
        want_stab = True        # lecturer ranks only matter among non-empty matchings
    want_pc = None
    if name in ('lmb', 'lsb', 'mincostlsb') and inst['na'] == 3 and pct(draw) < 35:
        # project closures x block lower quotas x free targets: what a closed project does to
        # its lecturer's load is where bounds and 'redundant' rows go wrong
        strategies.load_tradeoff(draw, inst)
        want_pc = pct(draw) < 85
        want_stab = False
    opts = draw(strategies.option_sets(inst, min_crit=1, max_crit=1, names=[name],
                                       twopl=True if (lecmult or want_stab) else None,
                                       stab=want_stab, pc=want_pc))
    if lecmult and pct(draw) < 35:
        # second multiplier absent: the documented default (0) is what is being tested
        opts['crit'][0][2] = list(draw(st.sampled_from([[], [1], [2], [3]])))
    elif lecmult:
        opts['crit'][0][2] = [draw(st.sampled_from([0, 1, 2, 3])),
                              draw(st.sampled_from([1, 2, 3]))]
    elif name in ('mincost', 'minsqcost') and not opts['twopl'] and pct(draw) < 40:
        # a lecturer multiplier on a ONE-sided run: there are no lecturer ranks, it weighs nothing
        opts['crit'][0][2] = [draw(st.sampled_from([1, 1, 2, 3])),
                              draw(st.sampled_from([1, 2, 3, 7]))]
    choices = draw(strategies.choice_lists) if mode != 'cbc' else []
    decoy = _lp.draw_decoy(draw, inst)
    _ret = {'inst': inst, 'opts': opts, 'choices': choices, 'mode': mode, 'salt': salt}
    return _lp.attach_decoy(_ret, decoy)


def strategy(tier):
    return _cases(tier)


describe = solverio.describe_case


def check_optimum(c, criteria, facet_prefix=''):
    """Shared with C04: reported matching and every element of the final optimal
    set reach the lexicographic optimum of `criteria` over the feasible set.
    Returns (feasible, optimal set, key vector)."""
    o = c.oracle
    feas = _lp.feasible_set(c)
    M = _lp.reported_matching(c)
    if not feas:
        if c.short['pulp_status'] == 'Optimal':
            raise Violation(facet_prefix + 'optimal_but_infeasible',
                            'no feasible matching exists but status is Optimal')
        return feas, [], []
    if c.short['pulp_status'] != 'Optimal' or M is None:
        # "Optimal iff feasible" is C02's statement; a criterion that fails to
        # find its optimum at all is reported here too because the value is missing
        raise Violation(facet_prefix + 'no_optimum_reported',
                        'feasible instance (%d matchings) but status %r'
                        % (len(feas), c.short['pulp_status']))
    if M not in set(feas):
        raise Violation(facet_prefix + 'reported_not_feasible',
                        'reported matching %r does not satisfy the requested constraints' % (M,))
    best, vec = o.lexopt(feas, criteria)
    got = [o.key(n, a, M) for n, a in criteria]
    if got != vec:
        k = next(i for i in range(len(vec)) if got[i] != vec[i])
        raise Violation(facet_prefix + 'suboptimal:' + criteria[k][0],
                        'criterion %d (%s %r): reported matching %r has value %r, optimum over '
                        'the %d feasible matchings%s is %r (e.g. %r)'
                        % (k + 1, criteria[k][0], criteria[k][1], M, got[k], len(feas),
                           ' optimal for the earlier criteria' if k else '', vec[k], best[0]))
    recs = [r for r in c.records if r.O is not None]
    if recs:
        last = recs[-1]
        for Mo in last.matchings('O', o.n1):
            if isinstance(Mo, str) or not o.valid(Mo):
                continue    # validity of IP solutions is C01's statement
            gk = [o.key(n, a, Mo) for n, a in criteria]
            if gk != vec:
                k = next(i for i in range(len(vec)) if gk[i] != vec[i])
                raise Violation(facet_prefix + 'ip_suboptimal:' + criteria[k][0],
                                'the final LpProblem admits %r as optimal, whose value for '
                                'criterion %d (%s %r) is %r; the optimum is %r'
                                % (Mo, k + 1, criteria[k][0], criteria[k][1], gk[k], vec[k]))
    return feas, best, vec


def run_params(case):
    """Metamorphic: the value of the criterion must not depend on the threads parameter."""
    from .. import refmodel
    o = refmodel.Oracle(case['inst'], case['opts']['twopl'], case['opts']['pc'])
    (name, args), = strategies.ordered_criteria(case['opts'])
    vals = []
    for threads in (None, case['threads']):
        try:
            run = solverio.Run(case['inst'], case['opts'], mode='cbc', threads=threads).solve()
            p = run.parsed('short')
        except Violation as v:
            if _lp.owns_exceptions(v):
                return Result(False, ['kind=params', 'skipped:exception'])
            raise
        if p['pulp_status'] != 'Optimal' or p['matching'] is None or not o.valid(p['matching']):
            vals.append((p['pulp_status'], None))
        else:
            vals.append((p['pulp_status'], o.key(name, args, p['matching'])))
    if vals[0] != vals[1]:
        raise Violation('solver_parameter_changes_optimum:' + name,
                        'criterion %s %r: solve(threads=None) gives status/value %r, '
                        'solve(threads=%r) gives %r' % (name, args, vals[0], case['threads'],
                                                        vals[1]))
    return Result(vals[0][1] is not None, ['kind=params', 'crit=' + name,
                                           'status=' + str(vals[0][0])])


def run_case(case):
    if case.get('kind') == 'params':
        return run_params(case)
    try:
        c = _lp.run_lp(case, want_long=False)
    except Violation as v:
        if _lp.owns_exceptions(v):
            return Result(False, ['skipped:' + v.facet.split(':')[0]])
        raise
    o = c.oracle
    (name, args), = c.criteria
    feas, best, vec = check_optimum(c, c.criteria)
    labels = _lp.base_labels(c, case) + ['args=%d' % len(args)]
    if case.get('threads'):
        labels.append('cbc_with_threads')
    if name in ('mincost', 'minsqcost', 'mincostlsb'):
        y = args[0] if len(args) > 0 else 1
        z = args[1] if len(args) > 1 else (1 if name == 'mincostlsb' else 0)
        labels.append('%s:second_multiplier_%s' % (name, 'zero' if z == 0 else 'nonzero'))
        if c.opts['twopl'] and name != 'mincostlsb':
            labels.append('%s:twopl:%s' % (name, 'default_args' if len(args) < 2 else 'explicit'))
    if not feas:
        return Result(False, labels + ['infeasible'])
    # the statistic line the criterion speaks about must agree with the matching
    M = c.short['matching']
    stat = STAT_OF[name]
    if stat:
        want = o.stats(M)[stat]
        got = c.short['stats'].get(stat)
        if got != want:
            raise Violation('statistic:' + stat, 'printed %s is %r, recomputed from the printed '
                            'matching %r: %r' % (stat, got, M, want))
    nkeys = len({o.key(name, args, X) for X in feas})
    return Result(nkeys >= 2, labels, {'solves': len(c.records)},)


MANIFEST = {
    'technique': 'property-based testing; optimum by definition-level enumeration; optimal set '
                 'of the final LpProblem enumerated exactly',
    'text': 'For generated (instance, single criterion with arguments, -pc/-stab) cases the '
            'value of the criterion on the printed matching, and on every solution in the '
            'optimal set of the final LpProblem, is compared with the minimum over all feasible '
            'matchings enumerated by the reference model; the statistic line concerned is '
            'recomputed from the printed matching. Small-scope exploration.',
    'note': 'Trusted: transcription of the documented criteria in refmodel.Oracle.key; '
            'enumerating back end (cross-checked against CBC in the thorough tier).',
}
MANIFEST['text'] += (' ' + 'Minimising criteria are mostly run on instances where lower quotas or -stab force students in (otherwise the empty matching is trivially optimal); cases may carry decoy objects or earlier solves.')
MANIFEST['text'] += (' ' + '12% of the size/profile/cost cases run -stab on size-gadget instances (stable matchings of different sizes by construction); lecturer multipliers are also given on one-sided runs, where they must weigh nothing; a 6% metamorphic kind solves the same case on real CBC with and without the threads parameter.')
