"""C12 - second-side lists rank exactly the agents that find them acceptable.

Domain: two-sided sm / hr / spa generator runs (incl. more lecturers than
projects, lecturers nobody ranks, students ranking several projects of one
lecturer).  Oracle: consistency computed from the first-side lines of the same
file by the independent reader; plus: the solver loads the file with -twopl.
"""
from hypothesis import strategies as st

from .. import genargs, refmodel, solverio
from ..common import Result, Violation
from ..strategies import pct, uni

ID = 'C12'
LEVEL = 'exploration'
ENGINE = 'hypothesis over two-sided generator runs; independent reader'
RULE = ('case = (sm|hr|spa, legal two-sided parameter vector, RNG seed); the spa mix forces '
        'few lecturers with pmin >= 2 (students ranking several projects of one lecturer) and '
        'n3 > n2 (lecturers without project); non-trivial = some student ranks >= 2 projects of '
        'one lecturer, or some second-side agent is ranked by nobody; distinct = distinct case')
ASSUMPTIONS = ['the generator is a pure function of the case once both global RNGs are seeded']


def budget(tier):
    return 8000 if tier == 'quick' else 250000


@st.composite
def _cases(draw, tier):
    shape = draw(st.sampled_from(['any', 'any', 'few_lecturers', 'many_lecturers']))
    k = pct(draw)
    if k >= 98:
        # a second-side agent ranked by more than a thousand first-side agents
        mp = draw(st.sampled_from(['hr', 'spa']))    # (a complete sm instance of this size: 10^6 entries, 90 s)
        n1 = draw(st.sampled_from([1001, 1100, 1300]))
        v = {'mp': mp, 'numinst': 1, 'n1': n1, 'twopl': True, 'seed': uni(draw, 0, 9999),
             't2': draw(st.sampled_from([None, 0.0, 0.3]))}
        if v['t2'] is None:
            del v['t2']
        if mp == 'sm':
            v.update(pmin=n1, pmax=n1)
        else:
            n2 = draw(st.sampled_from([1, 2, 3]))
            v.update(n2=n2, uq=n1, pmin=draw(st.sampled_from([1, n2])), pmax=n2)
        if mp == 'spa':
            v.update(n3=draw(st.sampled_from([1, 2])), luq=n1)
        return {'v': v, 'prior': None}
    if 3 <= k < 13:
        # hundreds of short lists over a pool at least ten times as long, heavy skew: whatever
        # way such lists are drawn, nobody may be ranked twice
        mp = draw(st.sampled_from(['hr', 'hr', 'spa', 'sm']))
        n1 = draw(st.sampled_from([300, 400, 600]))
        L = draw(st.sampled_from([3, 4, 6]))
        v = {'mp': mp, 'numinst': 1, 'n1': n1, 'pmin': 3, 'pmax': L, 'twopl': True,
             'skew': draw(st.sampled_from([50.0, 50.0, 10.0, 200.0])), 'seed': uni(draw, 0, 9999)}
        if mp != 'sm':
            v['n2'] = draw(st.sampled_from([10 * L, 10 * L + 5, 20 * L]))
            v['uq'] = max(n1, v['n2'])
        if mp == 'spa':
            v['n3'] = draw(st.sampled_from([3, 10]))
            v['luq'] = n1
        return {'v': v, 'prior': None}
    if k < 3:
        # hundreds of first-side agents, few second-side ones (id widths, wrap-around)
        mp = draw(st.sampled_from(['hr', 'spa', 'sm']))
        n1 = draw(st.sampled_from([256, 257, 300]))
        v = {'mp': mp, 'numinst': 1, 'n1': n1, 'pmin': 1, 'pmax': draw(st.sampled_from([1, 2, 3])),
             'twopl': True, 'seed': uni(draw, 0, 9999)}
        if mp != 'sm':
            v['n2'] = draw(st.sampled_from([3, 6, 12]))
            v['uq'] = n1
        if mp == 'spa':
            v['n3'] = draw(st.sampled_from([2, 4]))
            v['luq'] = n1
        return {'v': v, 'prior': None}
    big = (30, 12, 10) if tier == 'thorough' else (12, 8, 8)
    if shape == 'any':
        v = draw(genargs.legal_vectors(nmax=big, types=['sm', 'hr', 'spa'], numinst_max=2,
                                       two_sided=True))
    else:
        v = draw(genargs.legal_vectors(nmax=big, types=['spa'], numinst_max=2, two_sided=True))
        n2 = v['n2']
        if shape == 'few_lecturers':
            v['n3'] = uni(draw, 1, max(1, n2 // 2))
            v['pmax'] = n2
            v['pmin'] = min(n2, max(2, v['pmin']))
        else:
            v['n3'] = n2 + uni(draw, 1, 3)
        v['luq'] = max(v['luq'], 1)
        if 'lt' in v:
            v['lt'] = min(v['lt'], v['luq'])
        if 'llq' in v:
            v['llq'] = min(v['llq'], v.get('lt', 0))
    return {'v': v, 'prior': draw(genargs.prior_runs())}


def strategy(tier):
    return _cases(tier)


def describe(case):
    return {'argv': genargs.build_argv(case['v'], '<outdir>'), 'rng_seed': case['v']['seed']}


def lenient_second_side(text, na, v):
    """Called when the strict reader refuses the file: if the body has the expected number of
    lines, every token of a second-side list must still be an agent number."""
    import re
    lines = text.split('\n')
    try:
        counts = [int(x) for x in lines[0].split()]
        n1, n2 = counts[0], counts[1]
        n3 = counts[2] if na == 3 else 0
    except (ValueError, IndexError):
        return
    first = n1 + 1 + (n2 if na == 3 else 0)
    count = n3 if na == 3 else n2
    if len(lines) < first + count:
        return
    for k in range(count):
        toks = lines[first + k].split()
        for t in toks[(4 if na == 3 else 3):]:
            if not re.match(r'^\(?\d+\)?$', t):
                who = ('lecturer' if na == 3 else ('hospital' if v['mp'] == 'hr' else 'woman'))
                raise Violation('lists_stranger', '%s %d lists %r, which is not an agent'
                                % (who, k + 1, t))


def run_case(case):
    v = case['v']
    genargs.run_prior(case.get('prior'))
    outdir = genargs.fresh_outdir()
    argv = genargs.build_argv(v, outdir)
    status, code, err = genargs.run_generator(argv, v['seed'])
    if status != 'ok':
        # acceptance of legal vectors is C15's statement
        return Result(False, ['skipped:rejected'])
    na = genargs.na_of(v)
    nt = False
    labels = set(['mp=' + v['mp']] + ['n1>=256'] * (v['n1'] >= 256) + ['n1>1000'] * (v['n1'] > 1000))
    for idx, text in enumerate(genargs.read_outputs(outdir, v['numinst'])):
        try:
            I, _ = refmodel.parse(text, na)
        except refmodel.FormatError as e:
            # the format is C08's statement; a second-side list holding something that is not
            # an agent number is this property's ("no other agent appears")
            lenient_second_side(text, na, v)
            return Result(False, ['skipped:malformed'])
        for k in range(I['n3']):
            want = sorted(i + 1 for i in range(I['n1'])
                          if any(I['plec'][p - 1] == k + 1 for g in I['prefs'][i] for p in g))
            got = [x for g in I['lprefs'][k] for x in g]
            who = ('lecturer' if na == 3 else ('hospital' if v['mp'] == 'hr' else 'woman'))
            if len(set(got)) != len(got):
                raise Violation('listed_twice', '%s %d lists %r: an agent appears twice'
                                % (who, k + 1, got))
            extra = sorted(set(got) - set(want))
            missing = sorted(set(want) - set(got))
            if extra:
                raise Violation('lists_stranger', '%s %d lists %r who do not rank it (rankers: %r)'
                                % (who, k + 1, extra, want))
            if missing:
                raise Violation('omits_ranker', '%s %d omits %r who rank it (listed: %r)'
                                % (who, k + 1, missing, got))
            if not want:
                nt = True
                labels.add('unranked_second_side_agent')
        if na == 3:
            for i in range(I['n1']):
                lecs = [I['plec'][p - 1] for g in I['prefs'][i] for p in g]
                if len(set(lecs)) < len(lecs):
                    nt = True
                    labels.add('several_projects_of_one_lecturer')
            if I['n3'] > I['n2']:
                labels.add('more_lecturers_than_projects')
        # the solver loads it with -twopl without a missing-rank error
        path = solverio.write_instance(text)
        try:
            model = solverio.make_solver(['-f', path, '-na', str(na), '-twopl']).model
        except Violation as e:
            raise Violation('solver_cannot_load', 'generated two-sided file is not loadable with '
                            '-twopl: %s' % e.detail, exc=e.exc)
        for row in model.pairs:
            for p in row:
                if not hasattr(p, 'rank_lecturer'):
                    raise Violation('solver_cannot_load', 'pair %s has no lecturer rank' % p)
    return Result(nt, sorted(labels))


MANIFEST = {
    'technique': 'property-based testing of the generator; consistency oracle computed from the '
                 'first-side lines by an independent reader',
    'text': 'For generated two-sided sm/hr/spa runs each second-side list is compared with the '
            'set of first-side agents that rank that agent (a project of that lecturer): every '
            'ranker exactly once, nobody else; the file must load in the solver with -twopl. '
            'Exploration over up to 30 x 12 x 10 agents.',
    'note': 'Trusted: refmodel.parse; seeding of the global RNGs.',
}
MANIFEST['text'] += (' ' + 'Shapes: unrelated earlier Generator run in the same process; 256..300 first-side agents with few second-side ones.')
MANIFEST['text'] += (' ' + 'A shape with 1001-1300 first-side agents makes one second-side agent ranked by more than a thousand; when the strict reader refuses a file, second-side tokens that are not agent numbers are still reported.')
