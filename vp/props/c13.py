"""C13 - ties written by the generator are read back as the same ties by the solver.

Domain: ALL tie-decision vectors in {0,1}^n for n <= 10 (quick) / n <= 13
(thorough), each embedded in four placements (first-side list of a 2-agent
file, first-side list of a 3-agent file, hospital list, lecturer list) and read
through the real file path; plus drawn vectors/permutations up to n = 60.
Oracle: writer grammar (balanced, non-nested, groups >= 2 and maximal,
boundaries exactly at the zeros, last decision ignored, order preserved) and
reader (dense ranks: same rank iff tied, start at 1, +1 per group).
"""
import itertools

from hypothesis import strategies as st

from .. import solverio
from ..common import Result, Violation, call_repo
from ..strategies import pct, uni

ID = 'C13'
LEVEL = 'exploration'
ENGINE = 'exhaustive enumeration of tie vectors + hypothesis for long lists'
RULE = ('kind "instance": rows with given tie vectors assembled by the generators\' own '
        'create_instance (all ordered pairs of vectors on consecutive rows for n <= 4/5, both '
        'sides, hr and spa) and read back by the solver; kind list: '
        'case = (list length n, tie-decision vector, entry permutation, placement); all 2^n '
        'vectors for n <= 10/13 are enumerated in all four placements (identity and reversed '
        'entry order), longer ones are drawn; non-trivial = the vector has at least one tie and '
        'one non-tie among its first n-1 decisions; distinct = distinct case')
ASSUMPTIONS = [
    'the generator hands numpy arrays to create_string_pref (as its callers do); plain lists '
    'are used in half of the drawn cases',
]
EXHAUSTIVE = {'quick': True, 'thorough': True}
PLACEMENTS = ['first2', 'first3', 'hospital', 'lecturer']
NMAX = {'quick': 11, 'thorough': 16}


def budget(tier):
    return 1500 if tier == 'quick' else 20000


def exhaustive(tier):
    # whole instances assembled by the generators' create_instance: all ordered pairs of
    # tie vectors on two consecutive rows of each side (state must not leak between rows)
    for n in range(1, (4 if tier == 'quick' else 5) + 1):
        zero = [0] * n
        for v in itertools.product((0, 1), repeat=n):
            for w in itertools.product((0, 1), repeat=n):
                rows = [list(v), list(w)] + [zero] * (n - 2)
                rows = rows[:n] if n >= 2 else [list(v)]
                rows_b = [list(w), list(v)] + [zero] * (n - 2)
                rows_b = rows_b[:n] if n >= 2 else [list(w)]
                for gen in ('hr', 'spa', 'spa_shared', 'spa_interleaved'):
                    yield {'kind': 'instance', 'gen': gen, 'n': n, 'rows1': rows, 'rows2': rows_b,
                           'caps': (sum(v) + 2 * sum(w) + n) % 4}
    for n in range(1, NMAX[tier] + 1):
        for vec in itertools.product((0, 1), repeat=n):
            for k, pl in enumerate(PLACEMENTS):
                # identity order for two placements, reversed for the other two, alternating
                rev = (k + sum(vec)) % 2 == 1
                yield {'n': n, 'vec': list(vec), 'placement': pl, 'as_numpy': True,
                       'cap': [None, 0, 1][(sum(vec) + n + k) % 3],
                       'perm': list(range(n, 0, -1)) if rev else list(range(1, n + 1))}


@st.composite
def _cases(draw):
    k0 = pct(draw)
    if k0 >= 97:
        # first-side numbers above 1000 in short, tied second-side lists (keys built from two
        # numbers must not collide), and one list with about n1 entries
        n1 = draw(st.sampled_from([1001, 1203, 2050]))
        m = draw(st.sampled_from([2, 3, 4]))
        base = draw(st.sampled_from([1, 2, 3, 5, 7]))
        offs = [o for o in (0, 1, 256, 1000, 1001, 1024, 2000) if base + o <= n1]
        chosen = {}
        for o in offs:
            hs = list(draw(st.permutations(list(range(1, m + 1)))))
            chosen[str(base + o)] = hs[:draw(st.sampled_from([1, 2, m]))]
        orders = [list(draw(st.permutations(list(range(len(offs)))))) for _ in range(m)]
        bits1 = [1 if pct(draw) < 50 else 0 for _ in range(7)]
        bits2 = [1 if pct(draw) < draw(st.sampled_from([20, 50, 80])) else 0 for _ in range(11)]
        return {'kind': 'sparse', 'gen': draw(st.sampled_from(['hr', 'spa'])), 'n1': n1, 'm': m,
                'chosen': chosen, 'orders': orders, 'bits1': bits1, 'bits2': bits2}
    if pct(draw) < 30:
        n = draw(st.sampled_from([2, 3, 4, 5, 6, 8]))
        tp = draw(st.sampled_from([30, 50, 70, 100]))
        rows1 = [[1 if pct(draw) < tp else 0 for _ in range(n)] for _ in range(n)]
        rows2 = [[1 if pct(draw) < tp else 0 for _ in range(n)] for _ in range(n)]
        return {'kind': 'instance', 'gen': draw(st.sampled_from(['hr', 'spa', 'spa_shared',
                                                              'spa_interleaved'])),
                'caps': draw(st.sampled_from([0, 1, 2, 3])), 'n': n,
                'rows1': rows1, 'rows2': rows2}
    pl = draw(st.sampled_from(PLACEMENTS))
    as_numpy = draw(st.booleans())
    n = draw(st.sampled_from([2, 3, 5, 8, 14, 20, 33, 60, 60, 130, 257, 300, 520, 700]))
    tp = draw(st.sampled_from([10, 30, 50, 70, 90] if n <= 60 else [0, 3, 10, 30]))
    perm = list(draw(st.permutations(list(range(1, n + 1)))))
    vec = [1 if pct(draw) < tp else 0 for _ in range(n)]
    return {'n': n, 'vec': vec, 'placement': pl, 'as_numpy': as_numpy, 'perm': perm,
            'cap': draw(st.sampled_from([None, None, 0, 1]))}


def strategy(tier):
    return _cases()


def expected_groups(perm, vec):
    groups = [[perm[0]]]
    for i in range(1, len(perm)):
        if vec[i - 1]:
            groups[-1].append(perm[i])
        else:
            groups.append([perm[i]])
    return groups


def check_writer(tokens, perm, vec):
    """tokens: list of strings returned by create_string_pref."""
    n = len(perm)
    if len(tokens) != n:
        raise Violation('writer_length', '%d tokens for %d entries' % (len(tokens), n))
    groups = expected_groups(perm, vec)
    want = []
    for g in groups:
        if len(g) == 1:
            want.append(str(g[0]))
        else:
            want.append('(' + str(g[0]))
            want.extend(str(x) for x in g[1:-1])
            want.append(str(g[-1]) + ')')
    # explicit grammar checks first (better messages), then exact comparison
    depth = 0
    for t in tokens:
        if not isinstance(t, str):
            raise Violation('writer_type', 'token %r is not a string' % (t,))
        core = t.strip('()')
        if t.count('(') > 1 or t.count(')') > 1 or (t.count('(') and t.count(')')):
            raise Violation('writer_parens', 'token %r' % t)
        if t.startswith('('):
            if depth:
                raise Violation('writer_nested', 'nested parenthesis in %r' % (tokens,))
            depth = 1
        if t.endswith(')'):
            if not depth:
                raise Violation('writer_unbalanced', 'unbalanced ) in %r' % (tokens,))
            depth = 0
        if not core.isdigit():
            raise Violation('writer_token', 'token %r' % t)
    if depth:
        raise Violation('writer_unbalanced', 'unclosed ( in %r' % (tokens,))
    if [int(t.strip('()')) for t in tokens] != list(perm):
        raise Violation('writer_order', 'entry order changed: %r for %r' % (tokens, perm))
    if tokens != want:
        raise Violation('writer_groups', 'vector %r on %r gives %r, expected %r (groups are the '
                        'maximal runs of tied entries)' % (vec, perm, tokens, want))
    return groups


def build_file(placement, n, liststr, cap=None):
    cap = n if cap is None else cap
    return _build_file(placement, n, liststr, cap)


def _build_file(placement, n, liststr, cap):
    if placement == 'first2':
        lines = ['1 %d' % n, '1: ' + liststr] + ['%d: 0: 1: ' % (j + 1) for j in range(n)]
        return '\n'.join(lines) + '\n', 2, False
    if placement == 'first3':
        lines = ['1 %d 1' % n, '1: ' + liststr] + ['%d: 0: 1: 1' % (j + 1) for j in range(n)] + \
            ['1: 0: %d: %d: ' % (n, n)]
        return '\n'.join(lines) + '\n', 3, False
    if placement == 'hospital':
        lines = ['%d 1' % n] + ['%d: 1' % (i + 1) for i in range(n)] + \
            ['1: 0: %d: %s' % (cap, liststr)]
        return '\n'.join(lines) + '\n', 2, True
    lines = ['%d 1 1' % n] + ['%d: 1' % (i + 1) for i in range(n)] + ['1: 0: %d: 1' % n] + \
        ['1: 0: %d: %d: %s' % (cap, cap, liststr)]
    return '\n'.join(lines) + '\n', 3, True


def sparse_layout(case):
    """More than a thousand first-side agents, of which a few (numbers far apart: s, 256+s,
    1000+s, 2000+s, ...) rank the small second-side agents 1..m with ties; everybody else ranks
    only the last second-side agent, whose list therefore has about n1 entries."""
    n1, m = case['n1'], case['m']
    n2 = m + 1
    chosen = case['chosen']                     # {student: list of small hospitals in order}
    perms1, perms2 = [], [[] for _ in range(n2)]
    for i in range(1, n1 + 1):
        lst = list(chosen.get(str(i), chosen.get(i, []))) or [n2]
        perms1.append(lst)
    for j in range(1, n2 + 1):
        rankers = [i for i in range(1, n1 + 1) if j in perms1[i - 1]]
        if j <= m:
            # drawn order of the few rankers
            order = case['orders'][j - 1]
            rankers = sorted(rankers, key=lambda x: order[rankers.index(x) % len(order)]
                             if order else x)
        perms2[j - 1] = rankers
    rows1 = [[(case['bits1'][(i + k) % len(case['bits1'])]) for k in range(len(perms1[i]))]
             for i in range(n1)]
    rows2 = [[(case['bits2'][(3 * j + k) % len(case['bits2'])]) for k in range(len(perms2[j]))]
             for j in range(n2)]
    return n1, n2, perms1, rows1, perms2, rows2


def run_instance(case):
    """Rows with given tie vectors assembled by the generators' own create_instance."""
    import numpy as np
    from matchingproblems.generator.generator_ha_sm_hr import Generator_ha_sm_hr
    from matchingproblems.generator.generator_spa import Generator_spa
    if case.get('kind') == 'sparse':
        n1, n2, perms1, rows1, perms2, rows2 = sparse_layout(case)
    else:
        n = n1 = n2 = case['n']
        # agent i ranks all n agents of the other side, in an order rotated by i
        perms1 = [[(i + j) % n + 1 for j in range(n)] for i in range(n)]
        perms2 = [[(2 * i + j) % n + 1 for j in range(n)] for i in range(n)]
        rows1, rows2 = case['rows1'], case['rows2']
    ties1 = [np.array(v) for v in rows1]
    ties2 = [np.array(v) for v in rows2]
    p1 = [np.array(p) for p in perms1]
    p2 = [list(p) for p in perms2]
    n3 = n2
    plec = list(range(1, n2 + 1))
    if case['gen'] in ('spa_shared', 'spa_interleaved'):
        # two projects per lecturer: every student has several pairs with one lecturer, all of
        # which carry the rank of the student's single entry on that lecturer's list
        n3 = (n2 + 1) // 2
        plec = [j // 2 + 1 for j in range(n2)]
        if case['gen'] == 'spa_interleaved':
            # a lecturer's projects are not a block of consecutive numbers: 1 2 .. n3 1 2 ..
            # written from the highest lecturer down, so that spans enclose one another
            plec = [n3 - (j % n3) for j in range(n2)]
        perms2, rows2 = perms2[:n3], rows2[:n3]
        ties2, p2 = ties2[:n3], p2[:n3]
    # upper quotas of the second side: roomy, or 0 / 1 for some agents (a list is a list
    # whatever the capacity of its owner)
    capsel = case.get('caps', 0)
    cap2 = [n1 if (capsel == 0 or (k + capsel) % 3) else (k + capsel) % 2 for k in range(n2)]
    cap3 = [n1 if (capsel == 0 or (k + capsel) % 3) else (k + capsel) % 2 for k in range(n3)]
    if case['gen'] == 'hr':
        text = call_repo('create_instance', Generator_ha_sm_hr().create_instance, n1, n2, p1,
                         ties1, p2, ties2, [0] * n2, cap2, 'info\n')
        na = 2
    else:
        text = call_repo('create_instance', Generator_spa().create_instance, n1, n2, n3, p1, ties1,
                         plec, [0] * n2, [n1] * n2, p2, ties2, [0] * n3,
                         cap3, cap3, 'info\n')
        na = 3
    lines = text.split('\n')
    want1 = [expected_groups(perms1[i], rows1[i]) for i in range(n1)]
    want2 = [expected_groups(perms2[k], rows2[k]) if perms2[k] else [] for k in range(n3)]
    for i in range(n1):
        got = lines[1 + i].split()[1:]
        check_writer(got, perms1[i], rows1[i])
    off = 1 + n1 + (n2 if na == 3 else 0)
    skip = 4 if na == 3 else 3
    for k in range(n3):
        got = lines[off + k].split()[skip:]
        if perms2[k] or got:
            check_writer(got, perms2[k], rows2[k])
    path = solverio.write_instance(text)
    try:
        model = solverio.make_solver(['-f', path, '-na', str(na), '-twopl']).model
    except Violation as v:
        raise Violation('reader_fails', 'instance assembled by create_instance (%s): %s'
                        % (case['gen'], v.detail), exc=v.exc)
    w2s = [{x: r + 1 for r, g in enumerate(want2[k]) for x in g} for k in range(n3)]
    for i in range(n1):
        rs = {p.projectID: p.rank_student for p in model.pairs[i]}
        w = {x: r + 1 for r, g in enumerate(want1[i]) for x in g}
        if rs != w:
            raise Violation('reader_ranks', 'row %d of side 1 (%r) read with ranks %r, expected %r'
                            % (i + 1, lines[1 + i][:200], rs, w))
        for p in model.pairs[i]:
            k = p.lecturerID - 1
            if getattr(p, 'rank_lecturer', None) != w2s[k][i + 1]:
                raise Violation('reader_ranks', 'row %d of side 2 (%r): agent %d read with rank '
                                '%r, expected %r' % (k + 1, lines[off + k][:200], i + 1,
                                                     getattr(p, 'rank_lecturer', None), w2s[k][i + 1]))
    inner = [x for v in list(rows1) + list(rows2) for x in v[:len(v) - 1]]
    ends_in_tie = any(len(v) >= 2 and v[-2] and v[-1] for v in list(rows1[:-1]) + list(rows2[:-1]))
    labels = ['kind=' + case.get('kind', 'instance'), 'gen=' + case['gen']]
    if n1 > 1000:
        labels.append('n1>1000')
    if max(len(g) for g in want2) >= 256 or max(len(g) for g in want1) >= 256:
        labels.append('list_with>=256_ranks')
    if ends_in_tie:
        labels.append('row_ends_in_tie_with_last_decision_set')
    return Result((1 in inner) and (0 in inner), labels)


def run_case(case):
    if case.get('kind') in ('instance', 'sparse'):
        return run_instance(case)
    from matchingproblems.generator import generator_shared as gs
    import numpy as np
    n, vec, perm, pl = case['n'], case['vec'], case['perm'], case['placement']
    if case['as_numpy']:
        a_perm, a_vec = np.array(perm), np.array(vec)
    else:
        a_perm, a_vec = list(perm), list(vec)
    tokens = call_repo('create_string_pref', gs.create_string_pref, a_perm, a_vec)
    groups = check_writer(list(tokens), perm, vec)
    text, na, twopl = build_file(pl, n, ' '.join(tokens), case.get('cap'))
    path = solverio.write_instance(text)
    argv = ['-f', path, '-na', str(na)] + (['-twopl'] if twopl else [])
    try:
        model = solverio.make_solver(argv).model
    except Violation as v:
        raise Violation('reader_fails', 'file with list %r (%s): %s' % (' '.join(tokens), pl,
                                                                        v.detail), exc=v.exc)
    want = {}
    for r, g in enumerate(groups):
        for x in g:
            want[x] = r + 1
    if pl in ('first2', 'first3'):
        row = model.pairs[0]
        got_order = [p.projectID for p in row]
        got = {p.projectID: p.rank_student for p in row}
    else:
        got_order = None
        got = {}
        for i in range(n):
            if len(model.pairs[i]) != 1:
                raise Violation('reader_shape', 'student %d has %d pairs' % (i + 1,
                                                                             len(model.pairs[i])))
            got[i + 1] = model.pairs[i][0].rank_lecturer
    if got_order is not None and got_order != list(perm):
        raise Violation('reader_order', 'list %r read as order %r' % (' '.join(tokens), got_order))
    if got != want:
        raise Violation('reader_ranks', 'list %r (%s) read with ranks %r, expected %r'
                        % (' '.join(tokens), pl, got, want))
    inner = vec[:n - 1]
    nt = (1 in inner) and (0 in inner)
    labels = ['placement=' + pl, 'n<=%d' % (10 if n <= 10 else (13 if n <= 13 else 60))
              if n <= 60 else 'n>60',
              'numpy' if case['as_numpy'] else 'lists']
    if len(groups) >= 256:
        labels.append('list_with>=256_ranks')
    if vec and vec[-1]:
        labels.append('last_decision_set')
    if inner and all(inner):
        labels.append('whole_list_tied')
    if inner[:1] == [1]:
        labels.append('tie_at_start')
    if inner[-1:] == [1]:
        labels.append('tie_at_end')
    if any(inner[i] and not inner[i + 1] and i + 2 < len(inner) and inner[i + 2]
           for i in range(len(inner) - 2)):
        labels.append('adjacent_groups')
    return Result(nt, labels)


def coverage_extra(tier, counters, labels):
    n = NMAX[tier]
    return {'exhaustive_part': 'all 2^n tie vectors for n = 1..%d in %d placements = %d cases'
            % (n, len(PLACEMENTS), (2 ** (n + 1) - 2) * len(PLACEMENTS))}


MANIFEST = {
    'technique': 'bounded-exhaustive enumeration of all tie-decision vectors (round trip writer '
                 '-> file -> reader) plus property-based testing for long lists',
    'text': 'Every tie-decision vector of every length up to 10 (quick) / 13 (thorough) is '
            'written by create_string_pref, checked against the list grammar, embedded in a '
            '2-agent first-side list, a 3-agent first-side list, a hospital list and a lecturer '
            'list, and read back through Solver(args); adjacency of ranks must equal the tie '
            'decisions. Exhaustive up to the bound; drawn vectors and permutations up to '
            'length 60 beyond it.',
    'note': 'Trusted: the grammar of preference lists as documented in DESIGN.md section 1. '
            'Lists longer than 60 are not tried (both state machines are length-independent).',
}
MANIFEST['text'] += (' ' + "Whole instances are also assembled by the generators' own create_instance (all ordered pairs of tie vectors on consecutive rows of both sides for n <= 4/5, hr and spa) and read back.")
MANIFEST['text'] += (' ' + 'Drawn lists go up to 700 entries (more than 256 distinct ranks); a sparse kind assembles instances with 1001-2050 first-side agents whose numbers s, 256+s, 1000+s, 2000+s meet in short tied second-side lists.')
MANIFEST['text'] += (' ' + 'Owners of the lists get upper quotas 0 and 1 as well; whole instances are also assembled with two projects per lecturer in blocks and interleaved.')
