"""C14 - a run that was cut short or proved infeasible never presents a matching.

Fault enumeration at the solver boundary: for every generated (instance,
criteria sequence, time limit or none) the fault-free run is executed once to
learn K (number of underlying solves, including the per-rank solves inside
generous/greedy); then EVERY single-fault plan (position x kind x
transient/persistent x value policy) and the drawn two-fault plans are run.
Oracle: from the statement - let b be the first solve, in execution order, that
did not prove an optimum; then no 'matching:' line, no statistics and no
listing in either format, and 'Timeout: T seconds' if a limit is set and (the
run exceeded it or b is Not Solved), otherwise 'pulp_status: <status of b>'.
"""
import itertools

from hypothesis import strategies as st

from .. import faults, refmodel, restext, solverio, strategies
from ..common import HarnessError, Result, Violation
from ..strategies import pct, uni
from . import _lp

ID = 'C14'
LEVEL = 'fault_enumeration'
ENGINE = 'fault injector at PULP_CBC_CMD.actualSolve + owned clock; exact enumerating back end underneath'
RULE = ('case = (instance, criteria sequence tilted to generous/greedy with several ranks, time '
        'limit none or T, clock steps, up to 6 drawn two-fault plans); per case ALL single-fault '
        'plans are enumerated (counter fault_runs). non-trivial = some fault of the case hits a '
        'solve that is followed by at least one further solve in the fault-free run (the masking '
        'situation); distinct = distinct base case')
ASSUMPTIONS = [
    'fault kinds and the values/status they leave behind are a transcription of PuLP 2.9.0 '
    'coin_api.get_status/readsol (read, not provoked): Infeasible, Unbounded, Undefined, '
    'Not Solved (all-zero values), time-limit stop with incumbent = status Optimal + '
    'sol_status IntegerFeasible',
    'the harness owns the clock: a solve stopped by the limit T advances it by T, every other '
    'step by a strictly positive drawn amount; real wall-clock races are out of scope',
]
EXHAUSTIVE = {'quick': False, 'thorough': False}
STAT_LINES = ('matching', 'size', 'cost', 'cost_sq', 'degree', 'profile', 'max_lec_abs_diff',
              'sum_lec_abs_diff')


def budget(tier):
    return 800 if tier == 'quick' else 25000


@st.composite
def _cases(draw, tier):
    limit = draw(st.sampled_from([None, None, None, 5, 60, 0, 0.0, 2.5]))
    warmup = pct(draw) < 35
    bys = draw(st.sampled_from([None, None, None, 'same', 'same_other_opts', 'sibling']))
    threads = draw(st.sampled_from([None, None, 1, 2, 4]))
    salt = draw(strategies.salts)
    shape = draw(st.sampled_from(['gen', 'gre', 'gen_then', 'mix', 'mix']))
    mode = 'cbc' if tier == 'thorough' and pct(draw) < 5 else 'eb'
    inst = draw(strategies.instances(strategies.SIZES['quick'],
                                     min_len=draw(st.sampled_from([1, 2, 2, 3]))))
    if shape == 'mix':
        opts = draw(strategies.option_sets(inst, min_crit=1, max_crit=4))
    else:
        names = {'gen': ['gen'], 'gre': ['gre'], 'gen_then': ['maxsize', 'gen', 'mincost']}[shape]
        opts = draw(strategies.option_sets(inst, min_crit=len(names), max_crit=len(names),
                                           names=names))
        for c in opts['crit']:
            if c[0] in ('gen', 'gre') and pct(draw) < 70:
                c[2] = []       # default cut-off: all ranks -> several solves
    steps = draw(st.lists(st.sampled_from([1, 2, 10, 400, 1500]), min_size=1, max_size=3))
    doubles = []
    for _ in range(uni(draw, 0, 6)):
        doubles.append([[uni(draw, 0, 7), draw(st.sampled_from(faults.KINDS)), draw(st.booleans()),
                         draw(st.sampled_from(faults.POLICIES))] for _ in range(2)])
    bystander = None
    if bys == 'same':
        bystander = {'opts': opts, 'inst': None}
    elif bys == 'same_other_opts':
        bystander = {'opts': draw(strategies.option_sets(inst, max_crit=2, twopl=opts['twopl'],
                                                         pc=opts['pc'])), 'inst': None}
    elif bys == 'sibling':
        sib = draw(strategies.siblings(inst))
        bystander = {'opts': draw(strategies.option_sets(sib, max_crit=2)), 'inst': sib}
    return {'inst': inst, 'opts': opts, 'time_limit': limit, 'steps': steps, 'salt': salt,
            'choices': draw(strategies.choice_lists), 'doubles': doubles, 'mode': mode,
            'warmup': warmup, 'threads': threads, 'bystander': bystander, 'bys': bys}


def strategy(tier):
    return _cases(tier)


def describe(case):
    d = solverio.describe_case(case)
    d['time_limit'] = case['time_limit']
    d['two_fault_plans'] = case['doubles']
    return d


def _plan(spec):
    return [{'at': a, 'kind': k, 'persistent': bool(p), 'policy': pol} for a, k, p, pol in spec]


def check_run(fr, case, plan_desc, base_texts=None):
    """Oracle for one (possibly faulted) run."""
    T = case['time_limit']
    recs = fr.backend.records
    if fr.raised:
        return next(r for r in recs if r.status == 'Raised')     # the failure reached the caller
    b = None
    for r in recs:
        if r.status != 'Optimal':
            b = r
            break
    for which, text in (('short', fr.short), ('long', fr.long)):
        try:
            parsed = restext.parse_results(text)
        except Violation as v:
            raise Violation('format', '%s [%s]' % (v.detail, plan_desc))
        if b is None:
            # no unproven solve: only the over-limit rule applies
            if T is not None and fr.total_s is not None and fr.total_s > T:
                if parsed['timeout'] is None or parsed['matching'] is not None:
                    raise Violation('overlimit_run_presented', 'time limit %r, the run took %r '
                                    'virtual seconds (%s) but the %s results show timeout=%r '
                                    'matching=%r' % (T, fr.total_s, plan_desc, which,
                                                     parsed['timeout'], parsed['matching']))
            continue
        shown_stats = [k for k in STAT_LINES[1:] if k in parsed['stats']]
        if parsed['matching'] is not None or shown_stats or parsed['sections']:
            raise Violation('matching_presented', 'solve %d of %d ended %s (%s) but the %s results '
                            'show matching %r, statistics %r' % (
                                b.index + 1, len(recs), b.status, plan_desc, which,
                                parsed['matching'], shown_stats))
        if b.status == 'Raised':
            continue        # swallowed back-end failure: which status is shown is not specified
        want_timeout = T is not None and (
            (fr.total_s is not None and fr.total_s > T) or b.status == 'Not Solved')
        if want_timeout:
            if parsed['timeout'] is None:
                raise Violation('timeout_not_shown', 'time limit %r, run took %r virtual seconds, '
                                'first unproven solve %d ended %s (%s) but the %s results show '
                                'pulp_status %r instead of Timeout' % (
                                    T, fr.total_s, b.index + 1, b.status, plan_desc, which,
                                    parsed['pulp_status']))
            if parsed['timeout'].strip() != '%s seconds' % T:
                raise Violation('timeout_text', 'Timeout line %r for limit %r' % (parsed['timeout'], T))
        else:
            if parsed['timeout'] is not None:
                raise Violation('spurious_timeout', 'no limit exceeded (%s) but %s results show '
                                'Timeout' % (plan_desc, which))
            want = b.status.rstrip('*')
            if b.status.endswith('*'):
                # a solve stopped by a limit smaller than the user's, with an incumbent, in a
                # run that stayed within the user's limit: no matching (checked above); which
                # status line is shown for it is not specified
                continue
            if parsed['pulp_status'] != want:
                raise Violation('wrong_status_shown', 'first unproven solve %d of %d ended %s (%s) '
                                'but the %s results show pulp_status %r' % (
                                    b.index + 1, len(recs), want, plan_desc, which,
                                    parsed['pulp_status']))
    return b


def run_case(case):
    inst, opts, T = case['inst'], case['opts'], case['time_limit']
    kw = dict(time_limit=T, mode=case.get('mode', 'eb'), choices=case['choices'],
              salt=case['salt'], steps_ms=case['steps'])
    kw['threads'] = case.get('threads')
    wkw = dict(kw, warmup=bool(case.get('warmup')), bystander=case.get('bystander'))
    try:
        base = faults.FaultRun(inst, opts, [], **kw).run()
    except Violation as v:
        if _lp.owns_exceptions(v):
            return Result(False, ['skipped:exception'])
        raise
    K = base.nsolves
    check_run(base, case, 'no fault')
    base_b = next((r for r in base.backend.records if r.status != 'Optimal'), None)
    labels = ['K=%d' % min(K, 8), 'limit' if T is not None else 'no_limit',
              'warmup_solve_on_same_object' if case.get('warmup') else 'fresh_object',
              'limit=%r' % (T,), 'threads=%r' % (case.get('threads'),),
              'mode=' + case.get('mode', 'eb'), 'bystander=%s' % case.get('bys')]
    nruns = 1
    masking = False
    kinds = [k for k in faults.KINDS if k != 'Incumbent' or T is not None]
    plans = []
    for at in range(K):
        for kind in kinds:
            for persistent in (False, True):
                pols = faults.POLICIES if kind in ('Infeasible', 'Unbounded', 'Undefined') \
                    else ['zero']
                for pol in pols:
                    plans.append([[at, kind, persistent, pol]])
        for persistent in (False, True):
            plans.append([[at, faults.RAISES, persistent, 'prev']])
    for d in case['doubles']:
        d = [x for x in d if x[1] != 'Incumbent' or T is not None]
        if len(d) == 2 and K >= 1:
            plans.append([[d[0][0] % K, d[0][1], d[0][2], d[0][3]],
                          [d[1][0] % K, d[1][1], d[1][2], d[1][3]]])
    # the bystander object costs a solve of its own: at most ~40 plans per case carry it
    stride = max(1, -(-len(plans) // 40))
    for nplan, spec in enumerate(plans):
        pkw = wkw if nplan % stride == 0 else dict(wkw, bystander=None)
        desc = ' + '.join('%s %s fault at solve %d, values=%s' % (
            'persistent' if p else 'transient', k, a + 1, pol) for a, k, p, pol in spec)
        try:
            fr = faults.FaultRun(inst, opts, _plan(spec), **pkw).run()
        except Violation as v:
            if v.facet.startswith('exception:'):
                raise Violation('exception_after_fault', '%s: %s' % (desc, v.detail), exc=v.exc)
            raise
        nruns += 1
        if not fr.fired and base_b is None:
            raise HarnessError('plan %r never fired (K=%d)' % (spec, K))
        b = check_run(fr, case, desc)
        first = min(a for a, k, p, pol in spec)
        if first < K - 1 and (base_b is None or base_b.index > first):
            masking = True
        if len(spec) == 2:
            labels.append('two_fault_plan')
    if base_b is not None:
        labels.append('fault_free_run_unproven')
    crit = [c[0] for c in opts['crit']]
    if 'gen' in crit or 'gre' in crit:
        labels.append('has_gen_or_gre')
    return Result(masking, sorted(set(labels)), {'fault_runs': nruns, 'base_solves': K})


MANIFEST = {
    'technique': 'fault injection at the MILP solver boundary with exhaustive enumeration of all '
                 'single-fault plans per generated case, owned virtual clock, oracle from the statement',
    'text': 'For each generated (instance, criteria sequence, time limit) the fault-free run '
            'yields the number K of underlying solves; every single fault (K positions x '
            '{Infeasible, Unbounded, Undefined, Not Solved, time-limit stop with incumbent} x '
            '{transient, persistent} x value policy) and drawn two-fault plans are injected at '
            'PULP_CBC_CMD.actualSolve, and both result formats are checked: no matching, no '
            'statistics, and Timeout / first non-optimal status as the statement prescribes. '
            'Single faults are enumerated exhaustively per case; cases are sampled.',
    'note': 'Trusted: the transcription of PuLP 2.9.0\'s CBC status mapping (faults are '
            'simulated, real time-outs/crashes are not provoked); the harness-owned clock.',
}
MANIFEST['text'] += (' ' + 'Limits include 0, 0.0 and 2.5; a sixth fault kind is Not Solved without the clock being advanced; 35% of the cases first do a fault-free solve and a round of getters on the same object; threads is drawn in {None, 1, 2, 4}; fault-free runs that exceed their limit are checked too.')
MANIFEST['text'] += (' ' + 'A seventh injected outcome is the back end raising PulpSolverError (oracle: the exception reaches the caller, or no matching is presented); up to 40 plans per case have a bystander Solver (same file, same or other options, or a sibling instance) solved and read between the faulted solve and the reading of its results.')
