"""Reference model: abstract instances, file writer, independent file reader and
definition-level oracles.  Shares no code with the repository (DESIGN.md 2.1).

An instance is a plain JSON-able dict:
  na      2 (HA/SM/HR file) or 3 (SPA file)
  n1,n2,n3
  prefs   per first-side agent: list of tie groups (lists of second-side ids)
  plq,puq per project/hospital lower and upper quota
  plec    per project its lecturer id (na=3); na=2: [1..n2]
  llq,lt,luq  per lecturer (na=3); na=2: copies of plq,puq,puq (the embedding)
  lprefs  None (one-sided file) or per lecturer/hospital list of tie groups of first-side ids
A matching M is a tuple: M[i] = project id of student i+1, or 0.
"""
import itertools
import re


# ------------------------------------------------------------------ instances

def normalize(inst):
    """Fill in the 2-agent embedding (hospital j = project j + lecturer j)."""
    I = dict(inst)
    if I['na'] == 2:
        I['n3'] = I['n2']
        I['plec'] = list(range(1, I['n2'] + 1))
        I['llq'] = list(I['plq'])
        I['lt'] = list(I['puq'])
        I['luq'] = list(I['puq'])
    return I


def fmt_groups(groups, seps=None):
    """Tie groups -> token list in the documented grammar."""
    toks = []
    for g in groups:
        if len(g) == 1:
            toks.append(str(g[0]))
        else:
            toks.append('(' + str(g[0]))
            toks.extend(str(x) for x in g[1:-1])
            toks.append(str(g[-1]) + ')')
    return toks


class _Noise(object):
    """Deterministic supplier of the whitespace the grammar leaves free."""

    def __init__(self, noise):
        noise = noise or {}
        self.seps = noise.get('seps') or [' ']
        self.lead = noise.get('lead') or ['']
        self.trail = noise.get('trail') or ['']
        self.k = 0

    def sep(self):
        self.k += 1
        return self.seps[self.k % len(self.seps)]

    def line(self, toks):
        self.k += 1
        lead = self.lead[self.k % len(self.lead)]
        trail = self.trail[self.k % len(self.trail)]
        out = lead
        for n, t in enumerate(toks):
            if n:
                out += self.sep()
            out += t
        return out + trail


def render(inst, noise=None, with_second=True):
    """Instance -> text of the documented grammar.

    noise: {'seps': [...], 'lead': [...], 'trail': [...], 'info': bool, 'final_newline': bool}
    with_second: write the second-side lists when the instance has them.
    """
    I = normalize(inst)
    nz = _Noise(noise)
    noise = noise or {}
    L = []
    if I['na'] == 3:
        L.append(nz.line([str(I['n1']), str(I['n2']), str(I['n3'])]))
    else:
        L.append(nz.line([str(I['n1']), str(I['n2'])]))
    for i in range(I['n1']):
        L.append(nz.line(['%d:' % (i + 1)] + fmt_groups(I['prefs'][i])))
    second = I.get('lprefs') if with_second else None
    if I['na'] == 3:
        for j in range(I['n2']):
            L.append(nz.line(['%d:' % (j + 1), '%d:' % I['plq'][j], '%d:' % I['puq'][j],
                              '%d' % I['plec'][j]]))
        for k in range(I['n3']):
            toks = ['%d:' % (k + 1), '%d:' % I['llq'][k], '%d:' % I['lt'][k], '%d:' % I['luq'][k]]
            if second:
                toks += fmt_groups(second[k])
            L.append(nz.line(toks))
    else:
        for j in range(I['n2']):
            toks = ['%d:' % (j + 1), '%d:' % I['plq'][j], '%d:' % I['puq'][j]]
            if second:
                toks += fmt_groups(second[j])
            L.append(nz.line(toks))
    text = '\n'.join(L)
    if noise.get('info'):
        text += '\n\ninstance generation parameters\nnumber_of_agents_type_1: %d\n' \
                'ties_probability_1: 0.5\nskew_for_agent_1: 2.0\n' % I['n1']
    elif noise.get('final_newline', True):
        text += '\n'
    text += '\n' * int(noise.get('blank_tail') or 0)
    if noise.get('eol') and noise['eol'] != '\n':
        text = text.replace('\n', noise['eol'])
    return text


# ------------------------------------------------------------------ independent reader

class FormatError(Exception):
    pass


_TOKEN = re.compile(r'\(?\d+\)?$')


def _parse_list(tokens, where):
    """Tokens of one preference list -> tie groups.  Strict about the grammar."""
    groups, cur = [], None
    for t in tokens:
        if not _TOKEN.match(t):
            raise FormatError('%s: bad list token %r' % (where, t))
        opens, closes = t.startswith('('), t.endswith(')')
        v = int(t.strip('()'))
        if opens and closes:
            raise FormatError('%s: one-member tie %r' % (where, t))
        if opens:
            if cur is not None:
                raise FormatError('%s: nested parenthesis' % where)
            cur = [v]
        elif closes:
            if cur is None:
                raise FormatError('%s: unbalanced )' % where)
            cur.append(v)
            groups.append(cur)
            cur = None
        elif cur is not None:
            cur.append(v)
        else:
            groups.append([v])
    if cur is not None:
        raise FormatError('%s: unbalanced (' % where)
    return groups


def _fields(line, n, where):
    """'a: b: c: rest' -> ([a,b,c] ints, rest tokens); each of the first n
    tokens must be an integer immediately followed by a colon."""
    toks = line.split()
    if len(toks) < n:
        raise FormatError('%s: expected %d colon fields, got %r' % (where, n, line))
    head = []
    for t in toks[:n]:
        if not re.match(r'\d+:$', t):
            raise FormatError('%s: expected "<int>:" got %r' % (where, t))
        head.append(int(t[:-1]))
    return head, toks[n:]


def parse(text, na):
    """Independent reader of generated files.  Returns (instance, info_block_lines).
    The instance always carries 'lprefs' as parsed (possibly all-empty lists);
    'second_present' tells whether any second-side list is non-empty."""
    lines = text.split('\n')
    if not lines or not lines[0].strip():
        raise FormatError('empty header')
    hdr = lines[0].split()
    if len(hdr) != na or not all(re.match(r'\d+$', h) for h in hdr):
        raise FormatError('header %r does not have %d counts' % (lines[0], na))
    n1, n2 = int(hdr[0]), int(hdr[1])
    n3 = int(hdr[2]) if na == 3 else n2
    body = 1 + n1 + n2 + (n3 if na == 3 else 0)
    if len(lines) < body:
        raise FormatError('file has %d lines, body needs %d' % (len(lines), body))
    I = {'na': na, 'n1': n1, 'n2': n2, 'n3': n3, 'prefs': [], 'plq': [], 'puq': [],
         'plec': [], 'llq': [], 'lt': [], 'luq': [], 'lprefs': []}
    pos = 1
    for i in range(n1):
        (num,), rest = _fields(lines[pos], 1, 'first-side line %d' % (i + 1))
        if num != i + 1:
            raise FormatError('first-side line %d is numbered %d' % (i + 1, num))
        I['prefs'].append(_parse_list(rest, 'first-side line %d' % (i + 1)))
        pos += 1
    for j in range(n2):
        where = 'second-side line %d' % (j + 1)
        if na == 3:
            head, rest = _fields(lines[pos], 3, where)
            if len(rest) != 1 or not re.match(r'\d+$', rest[0]):
                raise FormatError('%s: expected exactly a lecturer id, got %r' % (where, rest))
            I['plec'].append(int(rest[0]))
        else:
            head, rest = _fields(lines[pos], 3, where)
            I['lprefs'].append(_parse_list(rest, where))
        if head[0] != j + 1:
            raise FormatError('%s is numbered %d' % (where, head[0]))
        I['plq'].append(head[1])
        I['puq'].append(head[2])
        pos += 1
    if na == 3:
        for k in range(n3):
            where = 'lecturer line %d' % (k + 1)
            head, rest = _fields(lines[pos], 4, where)
            if head[0] != k + 1:
                raise FormatError('%s is numbered %d' % (where, head[0]))
            I['llq'].append(head[1])
            I['lt'].append(head[2])
            I['luq'].append(head[3])
            I['lprefs'].append(_parse_list(rest, where))
            pos += 1
    else:
        I = normalize(I)
    info = lines[pos:]
    I['second_present'] = any(len(g) > 0 for g in I['lprefs'])
    return I, info


# ------------------------------------------------------------------ oracles

def ranks_of(groups):
    r = {}
    for idx, g in enumerate(groups):
        for x in g:
            r[x] = idx + 1
    return r


CRITERIA = ['maxsize', 'minsize', 'gen', 'gre', 'mincost', 'minsqcost', 'lmb', 'lsb',
            'mincostlsb']


class Oracle(object):
    """Definition-level semantics of one instance under -twopl / -pc."""

    def __init__(self, inst, twopl, pc=False):
        I = normalize(inst)
        self.I = I
        self.twopl = bool(twopl)
        self.pc = bool(pc)
        self.srank = [ranks_of(g) for g in I['prefs']]
        self.lrank = None
        if self.twopl:
            if not I.get('lprefs'):
                raise ValueError('two-sided oracle needs second-side lists')
            self.lrank = [ranks_of(g) for g in I['lprefs']]
        self.maxrank = max([max(r.values()) for r in self.srank if r] or [0])
        self.n1, self.n2, self.n3 = I['n1'], I['n2'], I['n3']
        self.plec = I['plec']

    # -- enumeration
    def assignments(self):
        opts = [[0] + sorted(r.keys()) for r in self.srank]
        return itertools.product(*opts)

    def counts(self, M):
        pc = [0] * self.n2
        lc = [0] * self.n3
        for p in M:
            if p:
                pc[p - 1] += 1
                lc[self.plec[p - 1] - 1] += 1
        return pc, lc

    def acceptable(self, M):
        return len(M) == self.n1 and all(p == 0 or p in self.srank[i] for i, p in enumerate(M))

    def valid(self, M):
        I = self.I
        if not self.acceptable(M):
            return False
        pc, lc = self.counts(M)
        for j in range(self.n2):
            if self.pc and pc[j] == 0:
                continue
            if not (I['plq'][j] <= pc[j] <= I['puq'][j]):
                return False
        for k in range(self.n3):
            if not (I['llq'][k] <= lc[k] <= I['luq'][k]):
                return False
        return True

    def why_invalid(self, M):
        I = self.I
        if len(M) != self.n1:
            return 'matching has %d entries for %d students' % (len(M), self.n1)
        for i, p in enumerate(M):
            if p and p not in self.srank[i]:
                return 'student %d assigned project %d not on their list' % (i + 1, p)
        pc, lc = self.counts(M)
        for j in range(self.n2):
            if self.pc and pc[j] == 0:
                continue
            if not (I['plq'][j] <= pc[j] <= I['puq'][j]):
                return 'project %d has %d students, quota [%d,%d]' % (
                    j + 1, pc[j], I['plq'][j], I['puq'][j])
        for k in range(self.n3):
            if not (I['llq'][k] <= lc[k] <= I['luq'][k]):
                return 'lecturer %d has %d students, quota [%d,%d]' % (
                    k + 1, lc[k], I['llq'][k], I['luq'][k])
        return None

    def respects_upper(self, M):
        pc, lc = self.counts(M)
        return (all(pc[j] <= self.I['puq'][j] for j in range(self.n2)) and
                all(lc[k] <= self.I['luq'][k] for k in range(self.n3)))

    # -- stability (SPA-STL definition, strict preference, dense tie-aware ranks)
    def blocking_pairs(self, M, first_only=False):
        """List of (student, project, clause) with clause in 3a, 3b_same, 3b_pref, 3c."""
        I = self.I
        pc, lc = self.counts(M)
        out = []
        # worst (largest) lecturer rank among assignees of each project / lecturer
        worst_p = [None] * self.n2
        worst_l = [None] * self.n3
        for x, q in enumerate(M):
            if q:
                k = self.plec[q - 1] - 1
                r = self.lrank[k][x + 1]
                if worst_p[q - 1] is None or r > worst_p[q - 1]:
                    worst_p[q - 1] = r
                if worst_l[k] is None or r > worst_l[k]:
                    worst_l[k] = r
        for i in range(self.n1):
            cur = M[i]
            for p, r in self.srank[i].items():
                if cur == p:
                    continue
                if cur and self.srank[i][cur] <= r:
                    continue   # does not strictly prefer p
                k = self.plec[p - 1] - 1
                p_under = pc[p - 1] < I['puq'][p - 1]
                l_under = lc[k] < I['luq'][k]
                mine = self.lrank[k][i + 1]
                clause = None
                if p_under and l_under:
                    clause = '3a'
                elif p_under and not l_under:
                    if cur and self.plec[cur - 1] - 1 == k:
                        clause = '3b_same'
                    elif worst_l[k] is not None and mine < worst_l[k]:
                        clause = '3b_pref'
                else:
                    if worst_p[p - 1] is not None and mine < worst_p[p - 1]:
                        clause = '3c'
                if clause:
                    out.append((i + 1, p, clause))
                    if first_only:
                        return out
        return out

    def stable(self, M):
        return not self.blocking_pairs(M, first_only=True)

    def feasible(self, stab=False):
        return [M for M in self.assignments()
                if self.valid(M) and (not stab or self.stable(M))]

    # -- statistics
    def size(self, M):
        return sum(1 for p in M if p)

    def profile(self, M):
        pr = [0] * self.maxrank
        for i, p in enumerate(M):
            if p:
                pr[self.srank[i][p] - 1] += 1
        return pr

    def degree(self, M):
        return max([self.srank[i][p] for i, p in enumerate(M) if p] or [0])

    def cost(self, M, sq=False):
        a = b = 0
        for i, p in enumerate(M):
            if p:
                r = self.srank[i][p]
                a += r * r if sq else r
                if self.lrank is not None:
                    r2 = self.lrank[self.plec[p - 1] - 1][i + 1]
                    b += r2 * r2 if sq else r2
        return a, b

    def absdiffs(self, M):
        pc, lc = self.counts(M)
        return [abs(lc[k] - self.I['lt'][k]) for k in range(self.n3)]

    def stats(self, M):
        d = self.absdiffs(M)
        return {'size': self.size(M), 'cost': self.cost(M), 'cost_sq': self.cost(M, True),
                'degree': self.degree(M), 'profile': self.profile(M),
                'max_lec_abs_diff': max(d) if d else 0, 'sum_lec_abs_diff': sum(d)}

    # -- criteria: value each one MINIMISES
    def key(self, crit, args, M):
        args = list(args or [])
        if crit == 'maxsize':
            return -self.size(M)
        if crit == 'minsize':
            return self.size(M)
        if crit == 'gen':
            c = args[0] if args else 1
            pr = self.profile(M)
            return tuple(pr[r - 1] for r in range(self.maxrank, max(0, c - 1), -1))
        if crit == 'gre':
            c = args[0] if args else self.maxrank
            pr = self.profile(M)
            return tuple(-pr[r - 1] for r in range(1, min(c, self.maxrank) + 1))
        if crit in ('mincost', 'minsqcost'):
            y = args[0] if len(args) > 0 else 1
            z = args[1] if len(args) > 1 else 0
            a, b = self.cost(M, crit == 'minsqcost')
            return y * a + z * b
        if crit == 'lmb':
            return max(self.absdiffs(M) or [0])
        if crit == 'lsb':
            return sum(self.absdiffs(M))
        if crit == 'mincostlsb':
            y = args[0] if len(args) > 0 else 1
            z = args[1] if len(args) > 1 else 1
            return y * self.cost(M)[0] + z * sum(self.absdiffs(M))
        raise ValueError(crit)

    def lexopt(self, feasible, criteria):
        """criteria: list of (name, args) in execution order.  Returns (optimal
        set, key vector)."""
        cur = list(feasible)
        vec = []
        for name, args in criteria:
            if not cur:
                break
            best = min(self.key(name, args, M) for M in cur)
            cur = [M for M in cur if self.key(name, args, M) == best]
            vec.append(best)
        return cur, vec
