"""Runner: tiers, seeds, sharding, collect-then-shrink, replay, known findings,
evidence files and exit codes.  See DESIGN.md section 2.7.

exit 0  property held on everything explored (KNOWN-FINDING lines allowed)
exit 1  violation(s): one line `VIOLATION property=<id> replay=<path>` each
exit 2  the machinery failed (inconclusive; never a violation)
"""
import argparse
import collections
import hashlib
import importlib
import itertools
import json
import multiprocessing
import os
import sys
import time
import traceback

from . import common
from .common import HarnessError, Violation, case_hash, sig_hash

NSHARDS_DEFAULT = 16
OUT_DIR = os.environ.get('VERIF_OUT_DIR') or os.path.join(common.VERIF_DIR, 'out', 'violations')
EVIDENCE_DIR = os.environ.get('VERIF_EVIDENCE_DIR') or os.path.join(common.VERIF_DIR, 'evidence')
CORPUS_DIR = os.path.join(common.VERIF_DIR, 'corpus')
KNOWN_FILE = os.environ.get('VERIF_KNOWN_FILE') or os.path.join(common.VERIF_DIR, 'known_findings.json')


def load_prop(prop_id):
    return importlib.import_module('vp.props.' + prop_id.lower())


def shard_seed(seed, prop_id, shard):
    h = hashlib.blake2b(('%d:%s:%d' % (seed, prop_id, shard)).encode(),
                        digest_size=8).digest()
    return int.from_bytes(h, 'big') >> 1


# ---------------------------------------------------------------- known findings

def load_known(prop_id):
    if not os.path.exists(KNOWN_FILE):
        return []
    with open(KNOWN_FILE) as f:
        data = json.load(f)
    return [e for e in data.get('findings', [])
            if e.get('property') == prop_id and e.get('status') == 'open']


def known_match(prop, open_entries, sig, case):
    for idx, e in enumerate(open_entries):
        if e.get('signature') != sig:
            continue
        pred = e.get('predicate')
        if pred:
            fn = getattr(prop, 'PREDICATES', {}).get(pred)
            if fn is None or not fn(case):
                continue
        return idx
    return None


# ---------------------------------------------------------------- one shard

class ShardState(object):
    def __init__(self):
        self.evaluations = 0
        self.nontrivial = set()
        self.labels = collections.Counter()
        self.counters = collections.Counter()
        self.samples_nt = []
        self.samples_any = []
        self.failures = {}          # sig -> dict
        self.excluded_dup = collections.Counter()
        self.excluded_known = collections.Counter()
        self.recent = collections.deque(maxlen=6)
        self.timeouts = 0
        self.case_timeout = 0
        self.notes = []


def _describe(prop, case):
    fn = getattr(prop, 'describe', None)
    try:
        return fn(case) if fn else case
    except Exception:  # describing must never break a run
        return case


class CaseTimeout(BaseException):
    """A single case exceeded its hard time limit (e.g. the real solver does not come back on
    the program a broken tree hands it).  Inconclusive for that case, never a violation."""


CASE_TIMEOUT = {'quick': 90, 'thorough': 600}
# wall-clock budget of the minimisation phase per shard (all signatures together) and of one
# fresh-process reproduction.  These only bound how long the machinery spends making a failure
# small; they are never a correctness signal: when the budget runs out the smallest failing
# case seen so far (or the unshrunk one) is reported.
SHRINK_BUDGET_S = {'quick': 45, 'thorough': 900}
SHRINK_CASE_LIMIT_S = {'quick': 20, 'thorough': 120}
# once a shard has recorded a violation, it stops generating further cases after this many
# seconds (the rest of the exploration only serves to find *other* signatures); a shard
# without a violation always runs its whole budget, so the unchanged tree is explored in full
GEN_BUDGET_AFTER_VIOLATION_S = {'quick': 100, 'thorough': 1500}
ISOLATE_TIMEOUT_S = {'quick': 150, 'thorough': 900}


def _alarm(signum, frame):
    raise CaseTimeout()


def _kill_children():
    me = os.getpid()
    for pid in os.listdir('/proc'):
        if pid.isdigit():
            try:
                with open('/proc/%s/stat' % pid) as f:
                    fields = f.read().rsplit(')', 1)[1].split()
                if int(fields[1]) == me:
                    os.kill(int(pid), 9)
            except (OSError, IndexError, ValueError):
                pass


def run_with_limit(prop, case, limit):
    """prop.run_case(case) under a hard wall-clock limit (SIGALRM in this worker process)."""
    import signal
    if not limit:
        return prop.run_case(case)
    signal.signal(signal.SIGALRM, _alarm)
    signal.setitimer(signal.ITIMER_REAL, limit)
    try:
        return prop.run_case(case)
    finally:
        signal.setitimer(signal.ITIMER_REAL, 0)


def _execute(prop, prop_id, case, st, open_entries, origin):
    """Run one concrete case, book-keep.  Never raises Violation."""
    st.evaluations += 1
    recent = list(st.recent)
    st.recent.append(case)
    try:
        res = run_with_limit(prop, case, st.case_timeout)
    except common.SolverMisbehaved as e:
        st.labels['skipped:solver_returned_infeasible_point'] += 1
        st.counters['solver_misbehaved'] += 1
        if len(st.notes) < 3:
            st.notes.append(str(e)[:300])
        return
    except CaseTimeout:
        _kill_children()
        st.labels['case_timeout'] += 1
        st.timeouts += 1
        # the run is inconclusive from here on (unless a violation is found); do not wait as
        # long for the next case that does not come back
        st.case_timeout = max(20, st.case_timeout // 3)
        return
    except Violation as v:
        sig = v.signature(prop_id)
        k = known_match(prop, open_entries, sig, case)
        if k is not None:
            st.excluded_known[k] += 1
            return
        if sig in st.failures:
            st.excluded_dup[sig] += 1
            alt = st.failures[sig].setdefault('alternates', [])
            if len(alt) < 8:
                alt.append(case)
            return
        # `recent`: the cases this process ran just before; needed to reproduce a failure
        # that depends on state the repository keeps between objects in one process
        st.failures[sig] = {'signature': sig, 'facet': v.facet, 'detail': v.detail,
                            'case': case, 'origin': origin, 'recent': recent}
        return
    if res is None:
        return
    for l in res.labels:
        st.labels[l] += 1
    for k, n in res.counters.items():
        st.counters[k] += n
    if res.nontrivial:
        st.nontrivial.add(case_hash(res.key if res.key is not None else case))
        if len(st.samples_nt) < 2:
            st.samples_nt.append(_describe(prop, case))
    elif len(st.samples_any) < 1:
        st.samples_any.append(_describe(prop, case))


def _hyp_run(prop, tier, seed, n, phases, body):
    import hypothesis
    from hypothesis import HealthCheck, given, settings
    strat = prop.strategy(tier)

    @hypothesis.seed(seed)
    @settings(max_examples=n, database=None, deadline=None, derandomize=False,
              report_multiple_bugs=False, phases=phases,
              suppress_health_check=list(HealthCheck),
              verbosity=hypothesis.Verbosity.quiet)
    @given(strat)
    def test(case):
        body(case)
    test()


def run_shard(args):
    prop_id, tier, seed, shard, nshards, n_examples, do_shrink, shrink_cap = args
    t0 = time.time()
    st = ShardState()
    out = {'shard': shard, 'harness_error': None}
    if os.environ.get('VERIF_DEBUG_HANG'):
        import faulthandler
        faulthandler.dump_traceback_later(int(os.environ['VERIF_DEBUG_HANG']), repeat=False,
                                          file=open('/tmp/ft-%d.txt' % os.getpid(), 'w'))
    try:
        from hypothesis import Phase
        prop = load_prop(prop_id)
        open_entries = load_known(prop_id)
        sseed = shard_seed(seed, prop_id, shard)
        st.case_timeout = CASE_TIMEOUT.get(tier, 90)

        # deterministic / exhaustive part, partitioned across shards
        ex = getattr(prop, 'exhaustive', None)
        if ex is not None:
            it = ex(tier)
            if it is not None:
                for case in itertools.islice(it, shard, None, nshards):
                    _execute(prop, prop_id, case, st, open_entries, 'exhaustive')

        # generated part
        if n_examples > 0 and getattr(prop, 'strategy', None) is not None:
            gen_until = t0 + GEN_BUDGET_AFTER_VIOLATION_S.get(tier, 100)

            def body(case):
                if st.failures and not FOUND.value:
                    FOUND.value = 1
                if (st.failures or FOUND.value) and time.time() > gen_until:
                    st.labels['skipped:budget_after_violation'] += 1
                    return
                _execute(prop, prop_id, case, st, open_entries, 'generated')
            _hyp_run(prop, tier, sseed, n_examples, [Phase.generate], body)
            out['t_generate'] = time.time() - t0

            # shrink each new signature found by generation: re-run the same
            # seeded search, failing only on that signature; the last failing
            # case Hypothesis visits is the smallest one.
            if do_shrink:
                shrink_until = time.time() + SHRINK_BUDGET_S.get(tier, 45)
                shrink_limit = min(st.case_timeout, SHRINK_CASE_LIMIT_S.get(tier, 20))
                for nsig, (sig, rec) in enumerate(sorted(st.failures.items())):
                    if rec['origin'] != 'generated' or nsig >= 4:
                        continue
                    best = {'case': None, 'calls': 0, 'detail': None}

                    def sbody(case, sig=sig, best=best):
                        best['calls'] += 1
                        if best['calls'] > shrink_cap or time.time() > shrink_until:
                            return
                        try:
                            run_with_limit(prop, case, shrink_limit)
                        except CaseTimeout:
                            _kill_children()
                            return
                        except common.SolverMisbehaved:
                            return
                        except Violation as v:
                            if v.signature(prop_id) == sig and \
                                    known_match(prop, open_entries, sig, case) is None:
                                best['case'] = case
                                best['detail'] = v.detail
                                raise
                    if time.time() > shrink_until:
                        continue
                    try:
                        _hyp_run(prop, tier, sseed, n_examples,
                                 [Phase.generate, Phase.shrink], sbody)
                    except BaseException:  # Violation / Flaky from hypothesis: expected
                        pass
                    if best['case'] is not None:
                        rec['shrunk_case'] = best['case']
                        rec['shrunk_detail'] = best['detail']
                        rec['shrink_calls'] = best['calls']
    except BaseException as e:  # noqa
        out['harness_error'] = ''.join(
            traceback.format_exception(type(e), e, e.__traceback__))[-6000:]
    try:
        from . import solverio
        solverio.cleanup()
    except Exception:
        pass
    out.update(evaluations=st.evaluations, nontrivial=st.nontrivial,
               labels=dict(st.labels), counters=dict(st.counters),
               samples_nt=st.samples_nt, samples_any=st.samples_any,
               failures=st.failures, excluded_dup=dict(st.excluded_dup),
               excluded_known=dict(st.excluded_known), wall=time.time() - t0,
               timeouts=st.timeouts, notes=st.notes)
    return out


# ---------------------------------------------------------------- corpus / replay

def corpus_cases(prop_id):
    d = os.path.join(CORPUS_DIR, prop_id)
    if not os.path.isdir(d):
        return []
    out = []
    for name in sorted(os.listdir(d)):
        if name.endswith('.json'):
            with open(os.path.join(d, name)) as f:
                data = json.load(f)
            out.append((name, data['case'] if 'case' in data else data))
    return out


def replay(prop_id, path):
    prop = load_prop(prop_id)
    with open(path) as f:
        data = json.load(f)
    case = data['case'] if 'case' in data else data
    for pre in data.get('prelude') or []:
        # cases that ran earlier in the same process when the failure was found (the failure
        # depends on state the repository keeps between objects); their outcome is ignored
        try:
            prop.run_case(pre)
        except (Exception, common.SolverMisbehaved):
            pass
    try:
        prop.run_case(case)
    except common.SolverMisbehaved as e:
        print('replay: outside the property (the MILP solver misbehaved): %s' % e)
        return 0
    except Violation as v:
        print('replay: %s' % v)
        print('replay-signature: %s' % v.signature(prop_id))
        print('VIOLATION property=%s replay=%s' % (prop_id, path))
        return 1
    print('replay: property held on this case')
    return 0


_TIER = ['quick']
# set by the first shard that records a violation (inherited through fork): lets the other
# shards apply GEN_BUDGET_AFTER_VIOLATION_S too
FOUND = multiprocessing.get_context('fork').Value('i', 0)


def reproduces_in_isolation(prop_id, sig, case, prelude):
    """Replays (prelude +) case in a fresh process; True iff the same signature is raised."""
    import subprocess
    import tempfile
    fd, tmp = tempfile.mkstemp(prefix='mpverif-iso-', suffix='.json')
    try:
        with os.fdopen(fd, 'w') as f:
            json.dump({'case': case, 'prelude': prelude}, f, default=str)
        r = subprocess.run([sys.executable, '-c',
                            'import sys; from vp.runner import main; sys.exit(main())',
                            prop_id, '--replay', tmp], cwd=common.VERIF_DIR,
                           stdout=subprocess.PIPE, stderr=subprocess.STDOUT, text=True,
                           timeout=ISOLATE_TIMEOUT_S.get(_TIER[0], 150),
                           env=dict(os.environ, PYTHONHASHSEED='0',
                                                 PYTHONDONTWRITEBYTECODE='1'))
        return r.returncode == 1 and ('replay-signature: %s' % sig) in r.stdout
    except Exception:
        return False
    finally:
        try:
            os.unlink(tmp)
        except OSError:
            pass


def isolate(prop_id, sig, rec):
    """Decide which concrete reproduction goes into the replay file: the shrunk case alone,
    the original case alone, or the original case preceded by the cases that ran just before
    it in the same process.  Returns (case, prelude, note)."""
    shrunk = rec.get('shrunk_case')
    if shrunk is not None and reproduces_in_isolation(prop_id, sig, shrunk, []):
        return shrunk, [], 'shrunk case reproduces in a fresh process'
    if reproduces_in_isolation(prop_id, sig, rec['case'], []):
        return rec['case'], [], 'unshrunk case reproduces in a fresh process (the shrunk one ' \
                                'did not: it depended on earlier cases)'
    for alt in rec.get('alternates') or []:
        if reproduces_in_isolation(prop_id, sig, alt, []):
            return alt, [], 'another failing case of the same signature reproduces in a fresh ' \
                            'process (the first one found depended on earlier cases)'
    recent = rec.get('recent') or []
    for k in (1, 2, 4, 6):
        pre = recent[-k:]
        if len(pre) < k and k > 1 and len(pre) == len(recent[-(k // 2):]):
            continue
        if reproduces_in_isolation(prop_id, sig, rec['case'], pre):
            return rec['case'], pre, ('STATE-DEPENDENT: reproduces in a fresh process only after '
                                      'the %d case(s) in "prelude" (state kept by the '
                                      'repository between objects of one process)' % len(pre))
    return rec.get('shrunk_case', rec['case']), [], \
        'NOT reproduced in a fresh process (observed once in the search process)'


# ---------------------------------------------------------------- main

def write_evidence(prop_id, ev):
    os.makedirs(EVIDENCE_DIR, exist_ok=True)
    path = os.path.join(EVIDENCE_DIR, prop_id + '.json')
    tmp = path + '.tmp'
    with open(tmp, 'w') as f:
        json.dump(ev, f, indent=1, sort_keys=True, default=str)
        f.write('\n')
    os.replace(tmp, path)


def main(argv=None):
    ap = argparse.ArgumentParser(prog='check')
    ap.add_argument('property')
    ap.add_argument('--tier', default=os.environ.get('VERIF_TIER') or 'quick',
                    choices=['quick', 'thorough'])
    ap.add_argument('--replay')
    ap.add_argument('--seed', type=int,
                    default=int(os.environ.get('VERIF_SEED') or '1'))
    ap.add_argument('--shards', type=int,
                    default=int(os.environ.get('VERIF_SHARDS') or NSHARDS_DEFAULT))
    ap.add_argument('--examples', type=int, default=None,
                    help='override the number of generated cases')
    ap.add_argument('--no-shrink', action='store_true')
    a = ap.parse_args(argv)
    prop_id = a.property.upper()

    if a.replay:
        try:
            return replay(prop_id, a.replay)
        except Exception:
            traceback.print_exc()
            print('HARNESS-ERROR property=%s (replay)' % prop_id)
            return 2

    t0 = time.time()
    # one scratch directory per run: the workers' own directories and the temporary files PuLP
    # writes for CBC (left behind when a solve is killed) live below it and go with it
    import atexit
    import shutil
    import tempfile
    base = '/dev/shm' if os.path.isdir('/dev/shm') and os.access('/dev/shm', os.W_OK) else None
    run_tmp = tempfile.mkdtemp(prefix='mpverif-run-', dir=base)
    os.environ['VERIF_RUN_TMP'] = run_tmp
    os.environ['TMPDIR'] = run_tmp
    tempfile.tempdir = run_tmp
    atexit.register(shutil.rmtree, run_tmp, True)
    try:
        prop = load_prop(prop_id)
    except Exception:
        traceback.print_exc()
        print('HARNESS-ERROR property=%s (cannot load check)' % prop_id)
        return 2
    open_entries = load_known(prop_id)
    budget = a.examples if a.examples is not None else prop.budget(a.tier)
    nshards = max(1, a.shards)
    per = budget // nshards
    extra = budget - per * nshards
    shrink_cap = 600 if a.tier == 'quick' else 5000

    # corpus (replay tier) first, in the parent
    st = ShardState()
    harness_errors = []
    try:
        for name, case in corpus_cases(prop_id):
            _execute(prop, prop_id, case, st, open_entries, 'corpus:' + name)
    except Exception:
        harness_errors.append(traceback.format_exc())
    corpus_n = st.evaluations

    jobs = [(prop_id, a.tier, a.seed, s, nshards, per + (1 if s < extra else 0),
             not a.no_shrink, shrink_cap) for s in range(nshards)]
    if nshards == 1:
        results = [run_shard(jobs[0])]
    else:
        ctx = multiprocessing.get_context('fork')
        with ctx.Pool(min(nshards, os.cpu_count() or 1)) as pool:
            results = pool.map(run_shard, jobs, chunksize=1)

    evaluations = st.evaluations
    nontrivial = set(st.nontrivial)
    labels = collections.Counter(st.labels)
    counters = collections.Counter(st.counters)
    samples = list(st.samples_nt)
    samples_any = list(st.samples_any)
    failures = dict(st.failures)
    excluded_dup = collections.Counter(st.excluded_dup)
    excluded_known = collections.Counter(st.excluded_known)
    case_timeouts = sum(r.get('timeouts', 0) for r in results)
    for r in results:
        if r['harness_error']:
            harness_errors.append('shard %d: %s' % (r['shard'], r['harness_error']))
        evaluations += r['evaluations']
        nontrivial |= r['nontrivial']
        labels.update(r['labels'])
        counters.update(r['counters'])
        for s in r['samples_nt']:
            if len(samples) < 4:
                samples.append(s)
        for s in r['samples_any']:
            if len(samples_any) < 1:
                samples_any.append(s)
        excluded_dup.update(r['excluded_dup'])
        excluded_known.update(r['excluded_known'])
        for sig, rec in r['failures'].items():
            cur = failures.get(sig)
            size = len(json.dumps(rec.get('shrunk_case', rec['case']), default=str))
            if cur is None or size < cur['_size']:
                rec['_size'] = size
                failures[sig] = rec
            if cur is not None:
                excluded_dup[sig] += 1
                keep = failures[sig]
                alts = keep.setdefault('alternates', [])
                other = cur if keep is rec else rec
                for c in [other['case']] + (other.get('alternates') or []):
                    if len(alts) < 16:
                        alts.append(c)
    for rec in failures.values():
        rec.setdefault('_size', 0)
    samples = samples + samples_any

    # violations -> replay files
    viol_lines = []
    if failures:
        os.makedirs(OUT_DIR, exist_ok=True)
    t_iso = time.time()
    if os.environ.get('VERIF_TIMING'):
        sys.stderr.write('timing: shards generate=%r total=%r\n' % (
            [round(r.get('t_generate', 0)) for r in results], [round(r['wall']) for r in results]))
    _TIER[0] = a.tier
    todo = [sig for sig in sorted(failures) if not failures[sig]['origin'].startswith('corpus')]
    isolated = {}
    if todo:
        # fresh-process reproductions of the different signatures run side by side
        from multiprocessing.pool import ThreadPool
        with ThreadPool(min(8, len(todo))) as tp:
            for sig, res in zip(todo, tp.map(lambda s: isolate(prop_id, s, failures[s]), todo)):
                isolated[sig] = res
    for sig in sorted(failures):
        rec = failures[sig]
        if rec['origin'].startswith('corpus'):
            case, prelude, note = rec['case'], [], 'corpus case'
        else:
            case, prelude, note = isolated[sig]
        rec['isolation_note'] = note
        path = os.path.join(OUT_DIR, '%s-%s.json' % (prop_id, sig_hash(sig)))
        with open(path, 'w') as f:
            json.dump({'property': prop_id, 'signature': sig, 'facet': rec['facet'],
                       'detail': rec.get('shrunk_detail', rec['detail']),
                       'origin': rec['origin'], 'case': case, 'prelude': prelude,
                       'isolation': note,
                       'unshrunk_case': rec['case'] if 'shrunk_case' in rec else None,
                       'seed': a.seed, 'tier': a.tier,
                       'replay_cmd': './check %s --replay %s' % (prop_id, path)},
                      f, indent=1, default=str)
            f.write('\n')
        viol_lines.append((sig, rec, path))

    wall = time.time() - t0
    if os.environ.get('VERIF_TIMING'):
        sys.stderr.write('timing: isolation=%.0fs wall=%.0fs\n' % (time.time() - t_iso, wall))
    cov = {
        'evaluations': evaluations,
        'distinct_nontrivial': len(nontrivial),
        'rule': prop.RULE,
        'samples': samples[:5],
        'labels': dict(sorted(labels.items())),
        'counters': dict(sorted(counters.items())),
        'corpus_cases': corpus_n,
        'generated_budget': budget,
        'shards': nshards,
        'excluded_known': {open_entries[k].get('description', str(k)): n
                           for k, n in excluded_known.items()},
        'excluded_duplicate_signature': dict(excluded_dup),
        'exhaustive': bool(getattr(prop, 'EXHAUSTIVE', {}).get(a.tier, False)),
        'engine': getattr(prop, 'ENGINE', 'hypothesis'),
        'case_timeouts': case_timeouts,
        'repo': common.REPO,
    }
    notes = list(st.notes) + [n for r in results for n in r.get('notes', [])]
    if notes:
        cov['solver_misbehaved'] = notes[:3]
    extra_cov = getattr(prop, 'coverage_extra', None)
    if extra_cov:
        try:
            cov.update(extra_cov(a.tier, dict(counters), dict(labels)))
        except Exception:
            harness_errors.append(traceback.format_exc())
    ev = {
        'property_id': prop_id, 'tier': a.tier, 'seed': a.seed, 'level': prop.LEVEL,
        'coverage': cov, 'assumptions': list(getattr(prop, 'ASSUMPTIONS', [])),
        'wall_s': round(wall, 2), 'violations': len(viol_lines),
    }
    if harness_errors:
        ev['coverage']['harness_errors'] = [h[-1500:] for h in harness_errors[:3]]
    # starvation guard: a required label class with zero cases is a generator bug
    starving = [l for l in getattr(prop, 'REQUIRED_LABELS', {}).get(a.tier, [])
                if labels.get(l, 0) == 0]
    write_evidence(prop_id, ev)

    for e in open_entries:
        idx = open_entries.index(e)
        print('KNOWN-FINDING: property=%s %s (hit %d times in this run)' % (
            prop_id, e.get('description', e.get('signature')), excluded_known.get(idx, 0)))
    print('%s tier=%s seed=%d evaluations=%d distinct_nontrivial=%d violations=%d wall=%.1fs'
          % (prop_id, a.tier, a.seed, evaluations, len(nontrivial), len(viol_lines), wall))
    for sig, rec, path in viol_lines:
        print('  violated: %s -- %s' % (sig, (rec.get('shrunk_detail') or rec['detail'])[:300]))
        if not rec.get('isolation_note', '').startswith('shrunk case'):
            print('    (%s)' % rec.get('isolation_note'))
        print('VIOLATION property=%s replay=%s' % (prop_id, path))
    if viol_lines:
        if harness_errors:
            sys.stderr.write('note: %d harness error(s) also occurred:\n%s\n'
                             % (len(harness_errors), harness_errors[0][-800:]))
        return 1
    if harness_errors:
        for h in harness_errors[:3]:
            sys.stderr.write(h + '\n')
        print('HARNESS-ERROR property=%s (inconclusive)' % prop_id)
        return 2
    if case_timeouts:
        print('HARNESS-ERROR property=%s %d case(s) exceeded the per-case time limit '
              '(inconclusive)' % (prop_id, case_timeouts))
        return 2
    if starving:
        print('HARNESS-ERROR property=%s generator starved classes: %s' % (prop_id, starving))
        return 2
    if len(nontrivial) < 2:
        print('HARNESS-ERROR property=%s fewer than 2 non-trivial cases' % prop_id)
        return 2
    return 0
