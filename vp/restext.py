"""Independent parsers for the result / debug / brute-force texts (DESIGN.md 2.6)."""
import ast
import re

from .common import Violation

STAT_KEYS = ['size', 'cost', 'cost_sq', 'degree', 'profile', 'max_lec_abs_diff',
             'sum_lec_abs_diff']
TIMING_KEYS = ['time_model_creation_seconds', 'time_solve_seconds', 'time_total_seconds']


def _profile(s):
    m = re.match(r'^<((?: \d+)*) >$', s.strip()) or re.match(r'^< >$', s.strip())
    if not m:
        raise Violation('format', 'profile %r is not "< a b c >"' % s)
    return [int(x) for x in s.strip()[1:-1].split()]


def _pair(s):
    try:
        v = ast.literal_eval(s.strip())
    except Exception:
        raise Violation('format', 'cost %r is not a pair' % s)
    if not (isinstance(v, tuple) and len(v) == 2 and all(isinstance(x, int) for x in v)):
        raise Violation('format', 'cost %r is not a pair of integers' % s)
    return v


def parse_results(text):
    """Result text of the LP mode (short or long) -> dict.

    keys: info (list of '- ...' lines), optimisations (the '- optimisation:' subset),
    timeout (str or None), pulp_status (str or None), stability_correct (bool or None),
    matching (tuple or None), stats (dict), timings (dict), sections (dict name -> lines)
    """
    out = {'info': [], 'optimisations': [], 'timeout': None, 'pulp_status': None,
           'stability_correct': None, 'matching': None, 'stats': {}, 'timings': {},
           'sections': {}, 'header': None}
    section = None
    for raw in text.split('\n'):
        line = raw.rstrip('\n')
        if line.startswith('# Results for the run conducted on'):
            out['header'] = line
            continue
        if line.startswith('#'):
            continue
        if not line.strip():
            section = None
            continue
        if line.startswith('- '):
            out['info'].append(line)
            if line.startswith('- optimisation:'):
                out['optimisations'].append(line[len('- optimisation:'):].strip())
            continue
        if line in ('Student_assignments:', 'Project_assignments:', 'Lecturer_assignments:'):
            section = line[:-1]
            if section in out['sections']:
                raise Violation('format', 'section %s printed twice' % section)
            out['sections'][section] = []
            continue
        if section is not None:
            out['sections'][section].append(line)
            continue
        m = re.match(r'^([A-Za-z_]+): ?(.*)$', line)
        if not m:
            raise Violation('format', 'unparseable result line %r' % line)
        k, v = m.group(1), m.group(2)
        if k == 'Timeout':
            out['timeout'] = v
        elif k == 'pulp_status':
            if out['pulp_status'] is not None:
                raise Violation('format', 'pulp_status printed twice')
            out['pulp_status'] = v.strip()
        elif k == 'stability_correct':
            if v.strip() not in ('True', 'False'):
                raise Violation('format', 'stability_correct is %r' % v)
            out['stability_correct'] = v.strip() == 'True'
        elif k == 'matching':
            if out['matching'] is not None:
                raise Violation('format', 'matching printed twice')
            try:
                out['matching'] = tuple(int(x) for x in v.split())
            except ValueError:
                raise Violation('format', 'matching line %r' % line)
        elif k in STAT_KEYS:
            if k in out['stats']:
                raise Violation('format', '%s printed twice' % k)
            if k == 'profile':
                out['stats'][k] = _profile(v)
            elif k in ('cost', 'cost_sq'):
                out['stats'][k] = _pair(v)
            else:
                try:
                    out['stats'][k] = int(v)
                except ValueError:
                    raise Violation('format', 'statistic line %r' % line)
        elif k in TIMING_KEYS:
            out['timings'][k] = v
        else:
            raise Violation('format', 'unknown result line %r' % line)
    return out


BF_KEYS = ['optimal_size', 'optimal_maxsizemincost', 'optimal_maxsizemindegree',
           'optimal_maxsizeminsqcost', 'optimal_generousmaxprofile', 'optimal_greedymaxprofile',
           'optimal_greedyprofile', 'optimal_max_lec_abs_diff', 'optimal_sum_lec_abs_diff']


def parse_bf(text):
    """Brute-force result text -> {'infeasible': bool, 'values': {...}}"""
    out = {'infeasible': False, 'values': {}, 'timings': {}}
    for line in text.split('\n'):
        if not line.strip() or line.startswith('#'):
            continue
        if line.strip() == 'Infeasible':
            out['infeasible'] = True
            continue
        m = re.match(r'^([A-Za-z_]+): ?(.*)$', line)
        if not m:
            raise Violation('format', 'unparseable brute-force line %r' % line)
        k, v = m.group(1), m.group(2)
        if k in TIMING_KEYS:
            out['timings'][k] = v
        elif k in BF_KEYS:
            if k in out['values']:
                raise Violation('format', '%s printed twice' % k)
            if 'profile' in k:
                out['values'][k] = _profile(v)
            elif 'cost' in k:
                out['values'][k] = _pair(v)
            else:
                try:
                    out['values'][k] = int(v)
                except ValueError:
                    raise Violation('format', 'brute-force line %r' % line)
        else:
            raise Violation('format', 'unknown brute-force line %r' % line)
    if out['infeasible'] and out['values']:
        raise Violation('format', 'Infeasible together with optimal_* lines')
    return out


_PAIR_TUPLE = re.compile(r'^\(s(\d+) p(\d+) rs(\d+) l(\d+)(?: rl(\d+))?\)$')


def parse_debug(text):
    """Debug text -> {'lp': rows of 0/1 or None, 'closures': list or None,
    'pairs': rows of (s,p,rs,l,rl|None)}"""
    out = {'lp': None, 'closures': None, 'pairs': []}
    lines = text.split('\n')
    i = 0
    mode = None
    while i < len(lines):
        line = lines[i]
        i += 1
        if line == 'Main lp decision variables:':
            mode = 'lp'
            out['lp'] = []
            continue
        if line == 'Project closure variables:':
            mode = 'cl'
            continue
        if line == 'Model instance information:':
            mode = 'pairs'
            continue
        if not line.strip():
            if mode == 'lp' and i < len(lines) and re.match(r'^[0-9. ]*[0-9][0-9. ]*$', lines[i]):
                # the row of a student with an empty preference list is an empty line
                out['lp'].append([])
                continue
            if mode in ('lp', 'cl'):
                mode = None
            continue
        if mode == 'lp':
            out['lp'].append([int(x) for x in line.split()])
        elif mode == 'cl':
            out['closures'] = [int(x) for x in line.split()]
            mode = None
        elif mode == 'pairs':
            row = []
            for tok in re.findall(r'\([^)]*\)', line):
                m = _PAIR_TUPLE.match(tok)
                if not m:
                    raise Violation('format', 'debug tuple %r' % tok)
                row.append(tuple(int(g) if g is not None else None for g in m.groups()))
            out['pairs'].append(row)
        else:
            raise Violation('format', 'unexpected debug line %r' % line)
    return out
