"""Exact enumerating MILP back end with adversarial choice (DESIGN.md 2.3/2.4).

`Backend` replaces PULP_CBC_CMD.actualSolve for the duration of a `with` block.
For every LpProblem the repository hands to PuLP it computes, by exact integer
search, the projection on the pair variables "(s,p)" of the complete feasible
set F and of the optimal set O, records them, and returns the element of O
selected by the next integer of a caller-supplied choice list.

modes: 'eb'   enumerate and choose
       'cbc'  the unmodified CBC adapter (records only status/objective)
       'both' enumerate, run CBC too, require equal status and optimum
              (a disagreement is a HarnessError, never a violation), choose from O
"""
import math
import re

from pulp import constants
from pulp.apis import coin_api

from .common import HarnessError

PAIR = re.compile(r'^\((\d+),(\d+)\)$')   # PuLP keeps "(1,2)" as the variable name? see _pair
PAIR2 = re.compile(r'^\(?(\d+),(\d+)\)?$')


def _int(x, what):
    if x is None:
        raise Unenumerable('unbounded variable/coefficient in %s' % what)
    r = round(x)
    if abs(x - r) > 1e-9:
        raise Unenumerable('non-integral datum %r in %s' % (x, what))
    return int(r)


def _pair(name):
    m = PAIR2.match(name)
    return (int(m.group(1)), int(m.group(2))) if m else None


class Unenumerable(HarnessError):
    pass


class SolveRecord(object):
    __slots__ = ('index', 'status', 'nF', 'nO', 'F', 'O', 'opt', 'pairs', 'chosen', 'objective',
                 'solver_time_limit')

    def matchings(self, which, n1):
        """Project the recorded pair vectors to matchings.  Returns a list of
        tuples M (student -> project or 0); a student with two projects is
        reported as the string 'MULTI:<pairs>' so callers can flag it."""
        out = []
        for vec in (self.F if which == 'F' else self.O):
            M = [0] * n1
            bad = False
            for (s, p), v in zip(self.pairs, vec):
                if v:
                    if v != 1 or s < 1 or s > n1 or M[s - 1]:
                        bad = True
                    else:
                        M[s - 1] = p
            out.append('MULTI:%r' % ([sp for sp, v in zip(self.pairs, vec) if v],)
                       if bad else tuple(M))
        return out


def extract(lp):
    vs = lp.variables()
    names = [v.name for v in vs]
    order = sorted(range(len(vs)), key=lambda i: (0 if _pair(names[i]) else 1, i))
    vs = [vs[i] for i in order]
    idx = {id(v): i for i, v in enumerate(vs)}
    lo = [_int(v.lowBound, v.name) for v in vs]
    hi = [_int(v.upBound, v.name) for v in vs]
    for v in vs:
        if v.cat not in (constants.LpInteger, 'Binary') and v.lowBound != v.upBound:
            raise Unenumerable('continuous variable %s' % v.name)
    cons = []
    for n, c in lp.constraints.items():
        terms = [(idx[id(v)], _int(a, n)) for v, a in c.items() if a != 0]
        k = c.constant
        if abs(k - round(k)) <= 1e-9:
            k = int(round(k))
        elif c.sense < 0:       # sum + k <= 0 over integers  <=>  sum + ceil(k) <= 0
            k = math.ceil(k)
        elif c.sense > 0:       # sum + k >= 0               <=>  sum + floor(k) >= 0
            k = math.floor(k)
        else:                   # sum + k == 0 with non-integral k: no integer solution
            terms, k = [], 1
        cons.append((terms, k, c.sense))
    o = lp.objective
    ot = [(idx[id(v)], _int(a, 'objective')) for v, a in o.items() if a != 0]
    sign = 1 if lp.sense == constants.LpMaximize else -1   # we maximise sign*objective
    ot = [(i, a * sign) for i, a in ot]
    nproj = sum(1 for v in vs if _pair(v.name))
    return vs, lo, hi, cons, ot, nproj, sign


def _propagate(lo, hi, cons, watch, queue):
    """Bounds consistency on integer linear constraints; False on wipe-out."""
    inq = set(queue)
    while queue:
        ci = queue.pop()
        inq.discard(ci)
        terms, const, sense = cons[ci]
        mn = const
        mx = const
        for i, a in terms:
            if a > 0:
                mn += a * lo[i]
                mx += a * hi[i]
            else:
                mn += a * hi[i]
                mx += a * lo[i]
        if sense <= 0:          # expr <= 0
            if mn > 0:
                return False
            for i, a in terms:
                if a > 0:
                    rest = mn - a * lo[i]
                    nb = (-rest) // a
                    if nb < hi[i]:
                        if nb < lo[i]:
                            return False
                        hi[i] = nb
                        for c2 in watch[i]:
                            if c2 not in inq:
                                queue.append(c2)
                                inq.add(c2)
                else:
                    rest = mn - a * hi[i]
                    # a*x <= -rest  with a<0  =>  x >= ceil(rest / -a)
                    nb = (rest + (-a) - 1) // (-a)
                    if nb > lo[i]:
                        if nb > hi[i]:
                            return False
                        lo[i] = nb
                        for c2 in watch[i]:
                            if c2 not in inq:
                                queue.append(c2)
                                inq.add(c2)
        if sense >= 0:          # expr >= 0
            if mx < 0:
                return False
            for i, a in terms:
                if a > 0:
                    rest = mx - a * hi[i]
                    # a*x >= -rest => x >= ceil(-rest / a)
                    nb = (-rest + a - 1) // a
                    if nb > lo[i]:
                        if nb > hi[i]:
                            return False
                        lo[i] = nb
                        for c2 in watch[i]:
                            if c2 not in inq:
                                queue.append(c2)
                                inq.add(c2)
                else:
                    rest = mx - a * lo[i]
                    # a*x >= -rest with a<0 => x <= floor(rest / -a)
                    nb = rest // (-a)
                    if nb < hi[i]:
                        if nb < lo[i]:
                            return False
                        hi[i] = nb
                        for c2 in watch[i]:
                            if c2 not in inq:
                                queue.append(c2)
                                inq.add(c2)
    return True


def solve_all(lp, limit=2000000, aux_order='lo'):
    """Returns (vs, nproj, results, sign): results = [(pair vector, best objective
    (in the 'maximise sign*obj' orientation), witness values)] for every pair
    vector that has a completion."""
    vs, lo0, hi0, cons, ot, nproj, sign = extract(lp)
    n = len(vs)
    watch = [[] for _ in range(n)]
    for ci, (terms, _, _) in enumerate(cons):
        for i, _a in terms:
            watch[i].append(ci)
    otd = dict(ot)
    results = []
    budget = [limit]

    def objbound(lo, hi):
        return sum(a * (hi[i] if a > 0 else lo[i]) for i, a in ot)

    def best_completion(lo, hi, k, best):
        budget[0] -= 1
        if budget[0] < 0:
            raise HarnessError('enumerating back end exceeded its node budget')
        while k < n and lo[k] == hi[k]:
            k += 1
        if best[0] is not None and objbound(lo, hi) <= best[0]:
            return
        if k == n:
            best[0] = sum(a * lo[i] for i, a in ot)
            best[1] = list(lo)
            return
        coef = otd.get(k, 0)
        # variables outside the objective are free within the optimum: 'lo' returns
        # the tightest values, 'hi' the slackest ones a solver is entitled to leave
        if coef > 0 or (coef == 0 and aux_order == 'hi'):
            vals = range(hi[k], lo[k] - 1, -1)
        else:
            vals = range(lo[k], hi[k] + 1)
        for val in vals:
            l2 = list(lo)
            h2 = list(hi)
            l2[k] = h2[k] = val
            if _propagate(l2, h2, cons, watch, list(watch[k])):
                best_completion(l2, h2, k + 1, best)

    def dfs(lo, hi, k):
        if k == nproj:
            best = [None, None]
            best_completion(lo, hi, k, best)
            if best[1] is not None:
                results.append((tuple(best[1][:nproj]), best[0], best[1]))
            return
        for val in range(lo[k], hi[k] + 1):
            l2 = list(lo)
            h2 = list(hi)
            l2[k] = h2[k] = val
            if _propagate(l2, h2, cons, watch, list(watch[k])):
                dfs(l2, h2, k + 1)

    lo = list(lo0)
    hi = list(hi0)
    if all(l <= h for l, h in zip(lo, hi)) and \
            _propagate(lo, hi, cons, watch, list(range(len(cons)))):
        dfs(lo, hi, 0)
    return vs, nproj, results, sign


def check_solver_point(lp, tol=1e-6):
    """After a real CBC solve that claims Optimal: does the returned point satisfy the
    problem?  Returns None or a description of the first violated row / bound."""
    for v in lp.variables():
        x = v.varValue
        if x is None:
            continue
        if (v.lowBound is not None and x < v.lowBound - tol) or \
                (v.upBound is not None and x > v.upBound + tol):
            return 'variable %s = %r outside [%r, %r]' % (v.name, x, v.lowBound, v.upBound)
        if v.cat == constants.LpInteger and abs(x - round(x)) > tol:
            return 'integer variable %s = %r' % (v.name, x)
    for name, c in lp.constraints.items():
        val = sum(a * (v.varValue or 0.0) for v, a in c.items()) + c.constant
        if (c.sense == constants.LpConstraintLE and val > tol) or \
                (c.sense == constants.LpConstraintGE and val < -tol) or \
                (c.sense == constants.LpConstraintEQ and abs(val) > tol):
            return 'row %s: %s' % (name, c)
    return None


def _guard_cbc(lp):
    """A real CBC answer is used only if CBC did its job on the program it was given: the
    point it calls Optimal satisfies the program, and - when the program is small enough to
    enumerate (<= 14 pair variables) - its verdict and objective value are the true ones.
    Found necessary in practice: the CBC binary bundled with PuLP 2.9.0 returns, with status
    Optimal, a point violating a <= 1 row on a 13-variable program of the pinned tree unless
    integer preprocessing is switched off (corpus/C07/cbc_returns_infeasible_point.json)."""
    from .common import SolverMisbehaved
    if lp.status == constants.LpStatusOptimal:
        bad = check_solver_point(lp)
        if bad:
            raise SolverMisbehaved('CBC reports Optimal with a point that violates ' + bad)
    if lp.status not in (constants.LpStatusOptimal, constants.LpStatusInfeasible):
        return
    try:
        vs, lo, hi, cons, ot, nproj, sign = extract(lp)
        if nproj > 14:
            return
        claimed = None
        if lp.status == constants.LpStatusOptimal:
            pos = {id(v): i for i, v in enumerate(vs)}
            claimed = sum(a * (vs[i].varValue or 0.0) for i, a in ot)
        _, _, res, _ = solve_all(lp, limit=40000)
    except (Unenumerable, HarnessError):
        return
    if lp.status == constants.LpStatusInfeasible:
        if res:
            raise SolverMisbehaved('CBC reports Infeasible, the program has %d feasible '
                                   'pair assignments' % len(res))
        return
    if not res:
        raise SolverMisbehaved('CBC reports Optimal, the program is infeasible')
    best = max(r[1] for r in res)
    if claimed < best - 1e-6:
        raise SolverMisbehaved('CBC reports Optimal with objective %r (maximise orientation), '
                               'the optimum is %r' % (claimed, best))


class Backend(object):
    def __init__(self, mode='eb', choices=(), keep_sets=True, hook=None, salt=0, aux_order=None,
                 ones_as=None):
        self.mode = mode
        self.choices = list(choices)
        self.salt = int(salt or 0)
        self.aux_order = aux_order or ('hi' if self.salt % 2 else 'lo')
        # a MILP solver reports a binary that is one as any value within its integrality
        # tolerance (CBC: 1e-6); 10% of the salts make the back end do so for the pair variables
        self.ones_as = ones_as if ones_as is not None else \
            {7: 0.9999999, 23: 0.9999999, 31: 1.0000001, 43: 0.9999999, 53: 1.0000001,
             59: 0.9999999}.get(self.salt, 1.0)
        self.keep_sets = keep_sets
        self.records = []
        self.fell_back = False
        self.last = None
        self.hook = hook         # hook(backend, lp, record) -> None, called after each solve
        self._orig = None

    # -- context manager: patch the class attribute, restore on exit
    def __enter__(self):
        self._had = 'actualSolve' in coin_api.PULP_CBC_CMD.__dict__
        self._orig = coin_api.PULP_CBC_CMD.__dict__.get('actualSolve')
        backend = self

        def actualSolve(solver_self, lp, **kwargs):
            return backend._solve(solver_self, lp, **kwargs)
        coin_api.PULP_CBC_CMD.actualSolve = actualSolve
        return self

    def __exit__(self, *exc):
        if self._had:
            coin_api.PULP_CBC_CMD.actualSolve = self._orig
        else:
            del coin_api.PULP_CBC_CMD.actualSolve
        return False

    def _choose(self, n):
        k = len(self.records)
        base = self.choices[k % len(self.choices)] if self.choices else 0
        # salt is drawn first in every case (uniformly); it keeps the selection spread
        # over the optimal set even when the late `choices` draws are minimal
        return (base + self.salt * (k + 1)) % n

    def _solve(self, solver_self, lp, **kwargs):
        rec = SolveRecord()
        rec.index = len(self.records)
        # the limit the solver object handed to LpProblem.solve() really carries
        rec.solver_time_limit = getattr(solver_self, 'timeLimit', None)
        rec.F = rec.O = rec.pairs = None
        rec.nF = rec.nO = None
        rec.opt = None
        rec.chosen = None
        if self.mode == 'cbc':
            status = coin_api.COIN_CMD.actualSolve(solver_self, lp, **kwargs)
            _guard_cbc(lp)
            rec.status = constants.LpStatus[lp.status]
            rec.objective = None
            self.records.append(rec)
            if self.hook:
                self.hook(self, lp, rec)
            return lp.status
        # the real adapter writes an MPS file that CBC rejects when two columns
        # carry the same name (observed: PulpSolverError "Error while executing")
        names = [v.name for v in lp.variables()]
        if len(set(names)) != len(names):
            from pulp import PulpSolverError
            raise PulpSolverError('Pulp: Error while executing (duplicated variable names %r)'
                                  % sorted(n for n in set(names) if names.count(n) > 1))
        try:
            vs, nproj, res, sign = solve_all(lp, aux_order=self.aux_order)
        except Unenumerable:
            # not a bounded pure-integer program (e.g. a variable lost its category): the
            # exact enumeration does not apply; let the real solver answer this one
            coin_api.COIN_CMD.actualSolve(solver_self, lp, **kwargs)
            _guard_cbc(lp)
            rec.status = constants.LpStatus[lp.status]
            rec.objective = None
            self.fell_back = True
            self.last = None
            self.records.append(rec)
            if self.hook:
                self.hook(self, lp, rec)
            return lp.status
        self.last = (vs, res)
        rec.pairs = [_pair(v.name) for v in vs[:nproj]]
        rec.nF = len(res)
        if not res:
            # what the variables hold after an infeasible solve is up to the solver (PuLP
            # passes on whatever CBC wrote: zeros, or the last relaxation): zeros for two
            # thirds of the salts, an arbitrary 0/1 pattern otherwise
            for k, v in enumerate(vs):
                v.varValue = float((k + self.salt) % 2) if self.salt % 3 == 1 else 0.0
            lp.assignStatus(constants.LpStatusInfeasible, constants.LpSolutionInfeasible)
            rec.status = 'Infeasible'
            rec.nO = 0
            rec.F = rec.O = []
            if self.mode == 'both':
                self._cross_check(solver_self, lp, rec, None, kwargs)
            self.records.append(rec)
            if self.hook:
                self.hook(self, lp, rec)
            return lp.status
        opt = max(r[1] for r in res)
        O = [r for r in res if r[1] == opt]
        rec.nO = len(O)
        rec.opt = opt * sign     # back in the problem's own orientation
        if self.keep_sets:
            rec.F = [r[0] for r in res]
            rec.O = [r[0] for r in O]
        if self.mode == 'both':
            self._cross_check(solver_self, lp, rec, opt * sign, kwargs)
        pick = O[self._choose(len(O))]
        rec.chosen = pick[0]
        for k, (v, val) in enumerate(zip(vs, pick[2])):
            v.varValue = self.ones_as if (k < nproj and val == 1) else float(val)
        lp.assignStatus(constants.LpStatusOptimal, constants.LpSolutionOptimal)
        rec.status = 'Optimal'
        self.records.append(rec)
        if self.hook:
            self.hook(self, lp, rec)
        return lp.status

    def _cross_check(self, solver_self, lp, rec, opt, kwargs):
        coin_api.COIN_CMD.actualSolve(solver_self, lp, **kwargs)
        _guard_cbc(lp)
        st = constants.LpStatus[lp.status]
        if opt is None:
            if st != 'Infeasible':
                raise HarnessError('back ends disagree: enumeration says infeasible, CBC %s' % st)
            return
        if st != 'Optimal':
            raise HarnessError('back ends disagree: enumeration optimum %r, CBC status %s'
                               % (opt, st))
        # (a variable CBC never saw, e.g. PuLP's __dummy, has no value: counts as 0)
        val = sum(a * (v.varValue or 0.0) for v, a in lp.objective.items()) + \
            (lp.objective.constant or 0)
        if abs(val - opt) > 1e-6:
            raise HarnessError('back ends disagree on the optimum: enumeration %r, CBC %r'
                               % (opt, val))
