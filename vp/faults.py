"""Fault injector at the solver boundary and owned clock (DESIGN.md 2.5).

The k-th underlying solve of a run is first performed for real (enumerating
back end, or CBC) and then, if the fault plan names k, its outcome is
overwritten the way PuLP 2.9.0's CBC adapter would report it:

  kind        status        sol_status        values             clock
  Infeasible  Infeasible    Infeasible        policy             +step
  Unbounded   Unbounded     Unbounded         policy             +step
  Undefined   Undefined     NoSolutionFound   policy             +step
  NotSolved   Not Solved    NoSolutionFound   all 0 (as PuLP)    +timeLimit if set
  NotSolvedEarly  (same, stopped for another reason: clock advances by a normal step only)
  Incumbent   Optimal       IntegerFeasible   a feasible point   +timeLimit   (needs a limit)

  Raises      (unchanged)   (unchanged)       unchanged          +step   the back end dies: PuLP raises
                                                                        PulpSolverError out of solve()

policy in {zero, prev, true}.  A fault is transient (that solve only) or
persistent (that solve and all later ones).
"""
import datetime as _real_datetime

from pulp import constants

from . import refbackend, solverio, strategies
from .common import HarnessError, Violation, call_repo

KINDS = ['Infeasible', 'Unbounded', 'Undefined', 'NotSolved', 'NotSolvedEarly', 'Incumbent']
# not one of the listed outcomes but "otherwise unsolved": CBC dies / leaves no solution file and
# PuLP raises PulpSolverError from inside solve().  Enumerated separately (RAISES) with the
# weaker oracle "the exception reaches the caller, or the results present no matching".
RAISES = 'Raises'
POLICIES = ['zero', 'prev', 'true']
STATUS = {
    'Infeasible': (constants.LpStatusInfeasible, constants.LpSolutionInfeasible),
    'Unbounded': (constants.LpStatusUnbounded, constants.LpSolutionUnbounded),
    'Undefined': (constants.LpStatusUndefined, constants.LpSolutionNoSolutionFound),
    'NotSolved': (constants.LpStatusNotSolved, constants.LpSolutionNoSolutionFound),
    'NotSolvedEarly': (constants.LpStatusNotSolved, constants.LpSolutionNoSolutionFound),
    'Incumbent': (constants.LpStatusOptimal, constants.LpSolutionIntegerFeasible),
}
SHOWN = {'Infeasible': 'Infeasible', 'Unbounded': 'Unbounded', 'Undefined': 'Undefined',
         'NotSolved': 'Not Solved', 'NotSolvedEarly': 'Not Solved', 'Incumbent': 'Optimal'}


class Clock(object):
    """Virtual clock: now() advances by a strictly positive step from a cyclic list (ms)."""

    def __init__(self, steps_ms):
        self.t = _real_datetime.datetime(2026, 1, 1, 12, 0, 0)
        self.steps = [max(1, int(s)) for s in (steps_ms or [1])]
        self.k = 0

    def now(self, tz=None):
        self.t += _real_datetime.timedelta(milliseconds=self.steps[self.k % len(self.steps)])
        self.k += 1
        return self.t

    def advance(self, seconds):
        self.t += _real_datetime.timedelta(seconds=seconds)


class _Shim(object):
    """Stands in for the `datetime` module inside matchingproblems/solver/solver.py."""

    def __init__(self, clock):
        self.clock = clock
        outer = self

        class _DT(object):
            @staticmethod
            def now(tz=None):
                return outer.clock.now(tz)
        self.datetime = _DT
        self.timedelta = _real_datetime.timedelta


class owned_clock(object):
    def __init__(self, clock):
        self.clock = clock

    def __enter__(self):
        import matchingproblems.solver.solver as smod
        self.smod = smod
        self.orig = smod.datetime
        smod.datetime = _Shim(self.clock)
        return self.clock

    def __exit__(self, *exc):
        self.smod.datetime = self.orig
        return False


class FaultRun(object):
    """One run of Solver(argv); solve(timeLimit) with a fault plan.

    plan: list of {'at': k, 'kind': ..., 'persistent': bool, 'policy': ...}
    """

    def __init__(self, inst, opts, plan=(), time_limit=None, mode='eb', choices=(), salt=0,
                 steps_ms=(1,), warmup=False, threads=None, bystander=None, resolve=False):
        self.resolve = resolve          # solve the same object again, fault-free, and read it
        self.short2 = None
        self.bystander = bystander      # None | {'opts': option set, 'inst': sibling or None}
        self.raised = False
        self.lp_status = {}
        self.warmup = warmup
        self.threads = threads
        self.inst, self.opts = inst, opts
        self.plan = list(plan)
        self.time_limit = time_limit
        self.clock = Clock(steps_ms)
        self.fired = []        # (solve index, kind) in execution order
        self.prev_values = {}
        self.mode = mode
        self.choices, self.salt = choices, salt

    def _active(self, k):
        for f in self.plan:
            if f['at'] == k or (f.get('persistent') and f['at'] <= k):
                return f
        return None

    def _stop_after(self, rec):
        """Seconds a solve stopped by its time limit has run: the limit of the solver object
        that was actually used for it (the repository may hand the back end another limit than
        the one the user gave to solve()), else the user's."""
        t = getattr(rec, 'solver_time_limit', None)
        try:
            return float(t) if t is not None else float(self.time_limit)
        except (TypeError, ValueError):
            return float(self.time_limit)

    def _hook(self, backend, lp, rec):
        k = rec.index
        f = self._active(k)
        vs = lp.variables()
        true_values = {v.name: v.varValue for v in vs}
        before = self.lp_status.get(id(lp), (constants.LpStatusNotSolved,
                                              constants.LpSolutionNoSolutionFound))
        if f is not None and f['kind'] == RAISES:
            # the adapter raises before it assigns a status or reads any value: the problem
            # keeps the status and the values it had before this solve
            from pulp import PulpSolverError
            self.fired.append((k, RAISES))
            for v in vs:
                v.varValue = self.prev_values.get(v.name, v.varValue)
            lp.status, lp.sol_status = before
            rec.status = 'Raised'
            raise PulpSolverError('Pulp: Error while executing cbc (injected: the solver died)')
        if f is not None:
            kind = f['kind']
            if kind == 'Incumbent' and self.time_limit is None:
                raise HarnessError('Incumbent fault without a time limit')
            self.fired.append((k, kind))
            st, sol = STATUS[kind]
            if kind in ('NotSolved', 'NotSolvedEarly'):
                for v in vs:
                    v.varValue = 0.0
                # NotSolvedEarly: CBC "Stopped" for another reason than the time limit
                # (iteration / node limit, interrupt): same status, clock not advanced
                if kind == 'NotSolved' and self.time_limit is not None:
                    self.clock.advance(self._stop_after(rec))
            elif kind == 'Incumbent':
                # a feasible, possibly non-optimal point when the enumeration has one
                last = getattr(backend, 'last', None)
                if last is not None and last[1]:
                    lvs, res = last
                    pick = res[(f.get('pick', 0) + k) % len(res)]
                    for v, val in zip(lvs, pick[2]):
                        v.varValue = float(val)
                self.clock.advance(self._stop_after(rec))
            else:
                pol = f.get('policy', 'zero')
                if pol == 'zero':
                    for v in vs:
                        v.varValue = 0.0
                elif pol == 'prev':
                    for v in vs:
                        v.varValue = self.prev_values.get(v.name, 0.0)
                # 'true': keep the values of the real solve
            lp.assignStatus(st, sol)
            rec.status = SHOWN[kind] + ('*' if kind == 'Incumbent' else '')
        self.prev_values = {v.name: (v.varValue if v.varValue is not None else 0.0) for v in vs}
        self.lp_status[id(lp)] = (lp.status, lp.sol_status)

    def _bystander(self, path):
        """Another Solver object (same file, or a sibling instance) is created, solved without
        any fault and read between the faulted solve and the reading of its results: nothing of
        it may show up in the results of the object under test."""
        b = self.bystander
        if b.get('inst') is not None:
            path = solverio.write_instance(solverio.refmodel.render(b['inst']), 'bystander.txt')
            na = b['inst']['na']
        else:
            na = self.inst['na']
        argv = strategies.build_argv(b['opts'], path, na)
        with refbackend.Backend(self.mode if self.mode != 'both' else 'eb', self.choices,
                                salt=self.salt + 1, keep_sets=False):
            other = solverio.make_solver(argv)
            call_repo('solve()', other.solve, msg=False, timeLimit=None, threads=None,
                      write=False)
        call_repo('get_results()', other.get_results)
        return other

    def run(self):
        text = solverio.refmodel.render(self.inst)
        path = solverio.write_instance(text)
        argv = strategies.build_argv(self.opts, path, self.inst['na'])
        self.backend = refbackend.Backend(self.mode, self.choices, hook=self._hook,
                                          salt=self.salt)
        with owned_clock(self.clock):
            self.solver = solverio.make_solver(argv)
            if self.warmup:
                # a fault-free solve and a round of getters on the same object first: nothing
                # of it may survive into the results of the faulted solve
                with refbackend.Backend(self.mode, self.choices, salt=self.salt,
                                        keep_sets=False):
                    call_repo('solve()', self.solver.solve, msg=False,
                              timeLimit=self.time_limit, threads=None, write=False)
                call_repo('get_results()', self.solver.get_results)
                call_repo('get_results_long()', self.solver.get_results_long)
            with self.backend:
                try:
                    call_repo('solve()', self.solver.solve, msg=False,
                              timeLimit=self.time_limit, threads=self.threads, write=False)
                except Violation as v:
                    if (RAISES in [k for _, k in self.fired] and v.exc
                            and v.exc[0] == 'PulpSolverError'):
                        self.raised = True      # the caller sees the failure: nothing to read
                        self.short = self.long = None
                        self.total_s = None
                        return self
                    raise
            if self.bystander:
                self._other = self._bystander(path)
            self.total_s = None
            m = self.solver.model
            try:
                self.total_s = (m.time_after_solve - m.time_start).total_seconds()
            except Exception:
                pass
            self.short = call_repo('get_results_short()', self.solver.get_results_short)
            self.long = call_repo('get_results_long()', self.solver.get_results_long)
            if self.resolve:
                # "retry": the same object is solved again and nothing fails this time
                self.backend2 = refbackend.Backend(self.mode if self.mode != 'both' else 'eb',
                                                   self.choices, salt=self.salt, keep_sets=False)
                with self.backend2:
                    call_repo('solve()', self.solver.solve, msg=False, timeLimit=None,
                              threads=None, write=False)
                self.short2 = call_repo('get_results_short()', self.solver.get_results_short)
        return self

    @property
    def nsolves(self):
        return len(self.backend.records)
